package main

import (
	"bytes"
	"context"
	"fmt"
	"os"
	"os/exec"
	"path/filepath"
	"regexp"
	"strings"
	"sync"
	"time"
)

type solverCfg struct {
	quickMs  int // first attempt (z3-new only)
	fullMs   int // portfolio attempt
	workers  int
	seed     int
	keepDir  string
	allAgree bool
	noBatch  bool
}

var patAll = regexp.MustCompile(`:pattern \(([^:]*)\)\)`)

// preludeAxiomSyms[i]: alternatives (one per :pattern); an alternative is the list of prelude
// function symbols of that pattern, all of which must occur in the query for the axiom to be
// relevant.
var preludeAxiomSyms [][][]string

var preludeFuncs = map[string]bool{}

func init() {
	for _, m := range regexp.MustCompile(`\(declare-fun (\S+) `).FindAllStringSubmatch(preludeDecls, -1) {
		preludeFuncs[m[1]] = true
	}
	for _, ax := range preludeAxioms {
		var alts [][]string
		for _, m := range patAll.FindAllStringSubmatch(ax, -1) {
			set := map[string]bool{}
			symbolsOf(m[1], set)
			var syms []string
			for s := range set {
				if preludeFuncs[s] {
					syms = append(syms, s)
				}
			}
			alts = append(alts, syms)
		}
		preludeAxiomSyms = append(preludeAxiomSyms, alts)
	}
}

func preludeRelevant(i int, syms map[string]bool) bool {
	for _, alt := range preludeAxiomSyms[i] {
		all := len(alt) > 0
		for _, s := range alt {
			if !syms[s] {
				all = false
			}
		}
		if all {
			return true
		}
	}
	return false
}

const preludeExtra = `(define-fun valRefsLE ((v Val) (a Int)) Bool (and (=> ((_ is VSlice) v) (<= (s-arr (vslice v)) a)) (=> ((_ is VMap) v) (<= (vmap v) a)) (=> ((_ is VBig) v) (<= (vbig v) a))))
`

// queryText assembles the SMT-LIB text of one obligation. Read-only on c (safe concurrently).
func (c *FnCtx) queryText(o *Oblig, negate bool) string {
	decls := c.declsOnly()
	asserts := c.assertsOnly(o, negate)
	syms := map[string]bool{}
	symbolsOf(decls, syms)
	symbolsOf(asserts, syms)
	// spec axioms: closure over mentioned spec functions
	var axs []string
	used := make([]bool, len(c.axioms))
	for changed := true; changed; {
		changed = false
		for i, ax := range c.axioms {
			if used[i] {
				continue
			}
			for _, s := range ax.syms {
				if syms[s] {
					used[i] = true
					changed = true
					axs = append(axs, ax.text)
					symbolsOf(ax.text, syms)
					break
				}
			}
		}
	}
	var sb strings.Builder
	sb.WriteString(preludeDecls)
	sb.WriteString(preludeExtra)
	sb.WriteString(c.sorts.declText())
	for i, ax := range preludeAxioms {
		if preludeRelevant(i, syms) {
			sb.WriteString(ax)
			sb.WriteString("\n")
		}
	}
	sb.WriteString(decls)
	for _, a := range axs {
		sb.WriteString("(assert ")
		sb.WriteString(a)
		sb.WriteString(")\n")
	}
	sb.WriteString(asserts)
	sb.WriteString("(check-sat)\n")
	return sb.String()
}

func (c *FnCtx) declsOnly() string {
	var sb strings.Builder
	for _, d := range c.decls {
		sb.WriteString(d)
		sb.WriteString("\n")
	}
	return sb.String()
}

func (c *FnCtx) assertsOnly(o *Oblig, negate bool) string {
	var sb strings.Builder
	var anc map[int]bool
	if o.Block != nil {
		anc = c.ancestorsOf(o.Block)
	}
	for i := 0; i < o.Prefix && i < len(c.ctx); i++ {
		// context slicing: facts recorded in blocks that cannot reach the obligation's block
		// are irrelevant (they are guarded by the reachability of those blocks)
		if anc != nil && i < len(c.ctxBlock) && c.ctxBlock[i] >= 0 && !anc[c.ctxBlock[i]] {
			continue
		}
		sb.WriteString("(assert ")
		sb.WriteString(c.ctx[i])
		sb.WriteString(")\n")
	}
	if negate {
		sb.WriteString("(assert (not ")
		sb.WriteString(o.Goal)
		sb.WriteString("))\n")
	} else {
		sb.WriteString("(assert ")
		sb.WriteString(o.Goal)
		sb.WriteString(")\n")
	}
	return sb.String()
}

type solverResult struct {
	status string // unsat, sat, unknown, timeout, error
	solver string
	secs   float64
	output string
}

func runSolver(ctx context.Context, solver, file string, ms int, seed int) solverResult {
	var cmd *exec.Cmd
	secs := (ms + 999) / 1000
	switch solver {
	case "z3-new":
		cmd = exec.CommandContext(ctx, "z3-new", fmt.Sprintf("-T:%d", secs), fmt.Sprintf("smt.random_seed=%d", seed), file)
	case "z3":
		cmd = exec.CommandContext(ctx, "z3", fmt.Sprintf("-T:%d", secs), fmt.Sprintf("smt.random_seed=%d", seed), file)
	case "cvc5":
		cmd = exec.CommandContext(ctx, "cvc5", fmt.Sprintf("--tlimit=%d", ms), fmt.Sprintf("--seed=%d", seed), file)
	}
	var out bytes.Buffer
	cmd.Stdout = &out
	cmd.Stderr = &out
	start := time.Now()
	cmd.Run()
	el := time.Since(start).Seconds()
	text := out.String()
	first := strings.TrimSpace(strings.SplitN(text, "\n", 2)[0])
	st := "unknown"
	switch {
	case strings.Contains(text, "(error"):
		st = "error"
	case first == "unsat":
		st = "unsat"
	case first == "sat":
		st = "sat"
	case strings.Contains(first, "timeout") || strings.Contains(text, "interrupted by timeout"):
		st = "timeout"
	case first == "unknown":
		st = "unknown"
	case ctx.Err() != nil:
		st = "cancelled"
	default:
		if strings.Contains(text, "error") || strings.Contains(text, "Error") {
			st = "error"
		}
	}
	return solverResult{status: st, solver: solver, secs: el, output: text}
}

// discharge runs the portfolio on one query file.
func discharge(file string, cfg *solverCfg) solverResult {
	total := 0.0
	r := runSolver(context.Background(), "z3-new", file, cfg.quickMs, cfg.seed)
	total += r.secs
	if (r.status == "unsat" || r.status == "sat") && !cfg.allAgree {
		return r
	}
	first := r
	// portfolio
	ctx, cancel := context.WithCancel(context.Background())
	defer cancel()
	// each z3 version runs under two random seeds: quantifier instantiation is seed sensitive, and an
	// obligation that one seed proves in a fraction of a second can time out under another
	type member struct {
		solver string
		dseed  int
	}
	members := []member{{"cvc5", 0}, {"z3", 0}, {"z3", 5}, {"z3-new", 17}, {"z3-new", 41}}
	ch := make(chan solverResult, len(members))
	n := 0
	for _, m := range members {
		if m.solver == "z3-new" && (first.status == "unsat" || first.status == "sat") {
			continue
		}
		n++
		go func(m member) {
			ch <- runSolver(ctx, m.solver, file, cfg.fullMs, cfg.seed+m.dseed)
		}(m)
	}
	var best solverResult
	best = first
	var errs []string
	agree := 0
	if first.status == "unsat" {
		agree++
	}
	for i := 0; i < n; i++ {
		r := <-ch
		if r.status == "error" {
			errs = append(errs, r.solver+": "+strings.TrimSpace(r.output))
		}
		if cfg.allAgree {
			if r.status == "unsat" {
				agree++
				if best.status != "sat" {
					best = r
				}
			} else if r.status == "sat" {
				best = r
			}
			continue
		}
		if r.status == "unsat" || r.status == "sat" {
			cancel()
			r.secs += total
			return r
		}
		if best.status == "" || best.status == "error" {
			best = r
		}
	}
	if cfg.allAgree {
		best.output += fmt.Sprintf("\n; solvers answering unsat: %d", agree)
		return best
	}
	if len(errs) > 0 && best.status != "unsat" {
		best.output += "\n" + strings.Join(errs, "\n")
	}
	return best
}

var workDir string

func getWorkDir() string {
	if workDir == "" {
		d, err := os.MkdirTemp("", "govc-")
		if err != nil {
			panic(err)
		}
		workDir = d
	}
	return workDir
}

func cleanupWorkDir() {
	if workDir != "" {
		os.RemoveAll(workDir)
	}
}

var fileSafe = regexp.MustCompile(`[^A-Za-z0-9_.$@#-]+`)

// batchText: all obligations of one function context in one incremental script (push/pop).
func (c *FnCtx) batchText(obs []*Oblig) string {
	decls := c.declsOnly()
	var all strings.Builder
	for _, t := range c.ctx {
		all.WriteString(t)
		all.WriteString("\n")
	}
	for _, o := range obs {
		all.WriteString(o.Goal)
		all.WriteString("\n")
	}
	syms := map[string]bool{}
	symbolsOf(decls, syms)
	symbolsOf(all.String(), syms)
	var axs []string
	used := make([]bool, len(c.axioms))
	for changed := true; changed; {
		changed = false
		for i, ax := range c.axioms {
			if used[i] {
				continue
			}
			for _, s := range ax.syms {
				if syms[s] {
					used[i] = true
					changed = true
					axs = append(axs, ax.text)
					symbolsOf(ax.text, syms)
					break
				}
			}
		}
	}
	var sb strings.Builder
	sb.WriteString(preludeDecls)
	sb.WriteString(preludeExtra)
	sb.WriteString(c.sorts.declText())
	for i, ax := range preludeAxioms {
		if preludeRelevant(i, syms) {
			sb.WriteString(ax)
			sb.WriteString("\n")
		}
	}
	sb.WriteString(decls)
	for _, a := range axs {
		sb.WriteString("(assert ")
		sb.WriteString(a)
		sb.WriteString(")\n")
	}
	done := 0
	for _, o := range obs {
		for ; done < o.Prefix && done < len(c.ctx); done++ {
			sb.WriteString("(assert ")
			sb.WriteString(c.ctx[done])
			sb.WriteString(")\n")
		}
		sb.WriteString("(push 1)\n(assert (not ")
		sb.WriteString(o.Goal)
		sb.WriteString("))\n(check-sat)\n(pop 1)\n")
	}
	return sb.String()
}

// solveBatches: first pass, one incremental z3-new process per function; whatever it does not
// prove is left for the per-obligation portfolio.
func solveBatches(obs []*Oblig, cfg *solverCfg) {
	dir := getWorkDir()
	groups := map[*FnCtx][]*Oblig{}
	var order []*FnCtx
	for _, o := range obs {
		if o.Cover || o.ctx == nil {
			continue
		}
		if _, ok := groups[o.ctx]; !ok {
			order = append(order, o.ctx)
		}
		groups[o.ctx] = append(groups[o.ctx], o)
	}
	var wg sync.WaitGroup
	sem := make(chan struct{}, cfg.workers)
	for gi, c := range order {
		list := groups[c]
		// obligations must be in prefix order
		sorted := true
		for i := 1; i < len(list); i++ {
			if list[i].Prefix < list[i-1].Prefix {
				sorted = false
			}
		}
		if !sorted || len(list) < 2 {
			continue
		}
		wg.Add(1)
		sem <- struct{}{}
		go func(gi int, c *FnCtx, list []*Oblig) {
			defer wg.Done()
			defer func() { <-sem }()
			file := filepath.Join(dir, fmt.Sprintf("batch%04d_%d.smt2", gi, time.Now().UnixNano()))
			if err := os.WriteFile(file, []byte(c.batchText(list)), 0o644); err != nil {
				return
			}
			defer os.Remove(file)
			perMs := 1500
			cmd := exec.Command("z3-new", fmt.Sprintf("-t:%d", perMs), fmt.Sprintf("-T:%d", len(list)*2+20), fmt.Sprintf("smt.random_seed=%d", cfg.seed), file)
			var out bytes.Buffer
			cmd.Stdout = &out
			cmd.Stderr = &out
			start := time.Now()
			cmd.Run()
			el := time.Since(start).Seconds()
			text := out.String()
			if strings.Contains(text, "(error") {
				return
			}
			// exactly one answer line per obligation, in order; anything else in the output (warnings,
			// a missing answer after a global timeout) makes the attribution unreliable: the whole batch
			// is then ignored and every obligation goes to the per-obligation portfolio
			var lines []string
			for _, l := range strings.Split(text, "\n") {
				l = strings.TrimSpace(l)
				if l == "" {
					continue
				}
				lines = append(lines, l)
			}
			if len(lines) > len(list) {
				return
			}
			for _, l := range lines {
				if l != "unsat" && l != "sat" && l != "unknown" && l != "timeout" {
					return
				}
			}
			for i, o := range list {
				if i >= len(lines) {
					break // hard time limit reached: the remaining obligations were not attempted
				}
				if lines[i] == "unsat" {
					o.Status = "discharged"
					o.Solver = "z3-new"
					o.Time = el / float64(len(list))
					o.Output = "unsat (incremental batch)"
				}
			}
		}(gi, c, list)
	}
	wg.Wait()
}

// solveObligs discharges obligations in parallel.
func solveObligs(obs []*Oblig, cfg *solverCfg) {
	if !cfg.noBatch && cfg.keepDir == "" {
		solveBatches(obs, cfg)
		var rest []*Oblig
		for _, o := range obs {
			if o.Status != "discharged" {
				rest = append(rest, o)
			}
		}
		obs = rest
	}
	dir := getWorkDir()
	var wg sync.WaitGroup
	sem := make(chan struct{}, cfg.workers)
	for i, o := range obs {
		wg.Add(1)
		sem <- struct{}{}
		go func(i int, o *Oblig) {
			defer wg.Done()
			defer func() { <-sem }()
			text := o.ctx.queryText(o, !o.Cover)
			name := fileSafe.ReplaceAllString(o.Name, "_")
			if len(name) > 150 {
				name = name[:150]
			}
			file := filepath.Join(dir, fmt.Sprintf("%05d_%s.smt2", i, name))
			if err := os.WriteFile(file, []byte(text), 0o644); err != nil {
				o.Status = "unknown"
				o.Output = err.Error()
				return
			}
			var r solverResult
			if o.Cover {
				// vacuity guard: no solver may refute the reachability of the point
				r = runSolver(context.Background(), "z3-new", file, 2000, cfg.seed)
				if r.status != "unsat" {
					if r2 := runSolver(context.Background(), "z3", file, 2000, cfg.seed); r2.status == "unsat" {
						r = r2
					}
				}
			} else {
				r = discharge(file, cfg)
			}
			o.Solver, o.Time, o.Output = r.solver, r.secs, r.output
			switch r.status {
			case "unsat":
				o.Status = "discharged"
				if o.Cover {
					o.Status = "unsat"
				}
			case "sat":
				o.Status = "sat"
			default:
				o.Status = "unknown"
			}
			if cfg.keepDir != "" {
				os.MkdirAll(cfg.keepDir, 0o755)
				os.WriteFile(filepath.Join(cfg.keepDir, name+".smt2"), []byte(text), 0o644)
				o.Detail += ""
			}
			if o.Status == "discharged" && cfg.keepDir == "" {
				os.Remove(file)
			}
		}(i, o)
	}
	wg.Wait()
}

// quickCheck: a single fast z3-new call (used by Houdini).
func quickCheck(obs []*Oblig, ms, workers int) {
	dir := getWorkDir()
	var wg sync.WaitGroup
	sem := make(chan struct{}, workers)
	for i, o := range obs {
		wg.Add(1)
		sem <- struct{}{}
		go func(i int, o *Oblig) {
			defer wg.Done()
			defer func() { <-sem }()
			text := o.ctx.queryText(o, true)
			file := filepath.Join(dir, fmt.Sprintf("h%05d_%d.smt2", i, time.Now().UnixNano()))
			os.WriteFile(file, []byte(text), 0o644)
			r := runSolver(context.Background(), "z3-new", file, ms, 1)
			if os.Getenv("GOVC_DEBUG") != "" && r.status == "error" {
				fmt.Fprintf(os.Stderr, "houdini query error: %s\n", strings.SplitN(r.output, "\n", 2)[0])
			}
			os.Remove(file)
			o.Time = r.secs
			if r.status == "unsat" {
				o.Status = "discharged"
			} else {
				o.Status = r.status
			}
		}(i, o)
	}
	wg.Wait()
}
