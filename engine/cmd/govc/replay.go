package main

import (
	"bufio"
	"context"
	"encoding/json"
	"fmt"
	"go/types"
	"io"
	"os"
	"os/exec"
	"path/filepath"
	"strconv"
	"strings"
	"time"

	"golang.org/x/tools/go/ssa"
)

// Replay of counterexamples on the real code (DESIGN §2.10).
//
// A sat answer is turned into concrete Go arguments (read from the solver's model in one
// interactive session), the real function is called from an in-package test injected with
// `go test -overlay` (nothing is written under /repo), and
//   - for safety obligations the recovered panic is the confirmation;
//   - for postconditions the observed results are substituted back and the violated clause is
//     evaluated by a ground SMT query (the contract has one semantics, the solver's).

type replayResult struct {
	text       string
	reproduced bool
}

// ---------- interactive solver session ----------

type smtSession struct {
	cmd *exec.Cmd
	in  io.WriteCloser
	out *bufio.Reader
}

func startSession(query string) (*smtSession, string, error) {
	cmd := exec.Command("z3-new", "-in", "-T:20")
	in, _ := cmd.StdinPipe()
	outp, _ := cmd.StdoutPipe()
	cmd.Stderr = cmd.Stdout
	if err := cmd.Start(); err != nil {
		return nil, "", err
	}
	s := &smtSession{cmd: cmd, in: in, out: bufio.NewReader(outp)}
	// the query ends with (check-sat)
	io.WriteString(in, query)
	line, err := s.readExpr()
	return s, strings.TrimSpace(line), err
}

// readExpr reads one balanced s-expression (or an atom line).
func (s *smtSession) readExpr() (string, error) {
	var sb strings.Builder
	depth := 0
	started := false
	for {
		ch, err := s.out.ReadByte()
		if err != nil {
			return sb.String(), err
		}
		if !started {
			if ch == ' ' || ch == '\n' || ch == '\t' {
				continue
			}
			started = true
		}
		sb.WriteByte(ch)
		switch ch {
		case '(':
			depth++
		case ')':
			depth--
			if depth == 0 {
				return sb.String(), nil
			}
		case '\n':
			if depth == 0 {
				return sb.String(), nil
			}
		}
	}
}

func (s *smtSession) value(term string) string {
	io.WriteString(s.in, "(get-value ("+term+"))\n")
	done := make(chan string, 1)
	go func() {
		r, _ := s.readExpr()
		done <- r
	}()
	select {
	case r := <-done:
		// ((term value))
		r = strings.TrimSpace(r)
		if h, args, ok := splitTop(r); ok {
			items := append([]string{h}, args...)
			if len(items) == 1 {
				if _, v, ok := splitTop(items[0]); ok && len(v) >= 1 {
					return v[len(v)-1]
				}
			}
		}
		return ""
	case <-time.After(10 * time.Second):
		return ""
	}
}

func (s *smtSession) close() {
	s.in.Close()
	s.cmd.Process.Kill()
	s.cmd.Wait()
}

func parseIntTerm(t string) (int64, bool) {
	t = strings.TrimSpace(t)
	if strings.HasPrefix(t, "(- ") {
		n, err := strconv.ParseInt(strings.TrimSuffix(strings.TrimPrefix(t, "(- "), ")"), 10, 64)
		if err != nil {
			if strings.TrimSuffix(strings.TrimPrefix(t, "(- "), ")") == "9223372036854775808" {
				return -9223372036854775808, true
			}
			return 0, false
		}
		return -n, true
	}
	n, err := strconv.ParseInt(t, 10, 64)
	return n, err == nil
}

// ---------- concrete values ----------

type cval struct {
	goExpr string // Go expression building the value
	smt    string // ground SMT term of the value (for clause evaluation); "" if not representable
	setup  []string
}

type replayCtx struct {
	e     *Engine
	c     *FnCtx
	s     *smtSession
	bigs  map[string]string // ref -> decimal value (entry heap)
	fail  string
	nstr  int
	limit int
}

func (rc *replayCtx) strValue(term string) (string, bool) {
	ln, ok := parseIntTerm(rc.s.value(app("slen", term)))
	if !ok || ln < 0 || ln > 256 {
		rc.fail = fmt.Sprintf("string of length %d in the model", ln)
		return "", false
	}
	bs := make([]byte, ln)
	for i := range bs {
		b, ok := parseIntTerm(rc.s.value(app("sat", term, strconv.Itoa(i))))
		if !ok {
			return "", false
		}
		bs[i] = byte(b)
	}
	return string(bs), true
}

func goStr(s string) string { return strconv.Quote(s) }

func (rc *replayCtx) valTerm(term string, depth int) (cval, bool) {
	v := rc.s.value(term)
	h, args, isApp := splitTop(v)
	if !isApp {
		h = v
	}
	switch h {
	case "VNil":
		return cval{goExpr: "nil", smt: "VNil"}, true
	case "VBool":
		return cval{goExpr: args[0], smt: app("VBool", args[0])}, true
	case "VInt":
		n, ok := parseIntTerm(args[0])
		if !ok {
			return cval{}, false
		}
		return cval{goExpr: fmt.Sprintf("int(%d)", n), smt: app("VInt", intLit(n))}, true
	case "VStr":
		s, ok := rc.strValue(app("vstr", term))
		if !ok {
			return cval{}, false
		}
		return cval{goExpr: goStr(s), smt: "STR:" + s}, true
	case "VNum":
		s, ok := rc.strValue(app("vnum", term))
		if !ok {
			return cval{}, false
		}
		return cval{goExpr: "json.Number(" + goStr(s) + ")", smt: "NUM:" + s}, true
	case "VBig":
		ref := args[0]
		bh := rc.c.entry["BIG"]
		if bh == "" {
			return cval{}, false
		}
		val := rc.s.value(sel(bh, ref))
		val = strings.TrimSuffix(strings.TrimPrefix(strings.TrimSpace(val), "(- "), ")")
		neg := strings.HasPrefix(strings.TrimSpace(rc.s.value(sel(bh, ref))), "(-")
		if neg {
			val = "-" + val
		}
		if _, ok := new(bigIntT).SetString(val, 10); !ok {
			return cval{}, false
		}
		rc.bigs[ref] = val
		return cval{goExpr: "mustBig(" + goStr(val) + ")", smt: "BIG:" + ref + ":" + val}, true
	case "VF64":
		rc.fail = "float64 argument in the model (floats are uninterpreted)"
		return cval{}, false
	case "VSlice":
		if depth > 1 {
			rc.fail = "nested containers in the model"
			return cval{}, false
		}
		return rc.sliceTerm(app("vslice", term), depth)
	}
	rc.fail = "value " + v + " of the model has no Go literal"
	return cval{}, false
}

func (rc *replayCtx) sliceTerm(term string, depth int) (cval, bool) {
	ln, ok1 := parseIntTerm(rc.s.value(app("s-len", term)))
	arr, ok2 := parseIntTerm(rc.s.value(app("s-arr", term)))
	if !ok1 || !ok2 || ln < 0 || ln > 16 {
		rc.fail = "slice too long in the model"
		return cval{}, false
	}
	if arr == 0 {
		return cval{goExpr: "[]any(nil)"}, true
	}
	h := rc.c.entry["HE_any"]
	if h == "" {
		return cval{}, false
	}
	var elems []string
	for i := int64(0); i < ln; i++ {
		et := sel2(h, app("s-arr", term), add(app("s-off", term), strconv.FormatInt(i, 10)))
		ev, ok := rc.valTerm(et, depth+1)
		if !ok {
			return cval{}, false
		}
		elems = append(elems, ev.goExpr)
	}
	return cval{goExpr: "[]any{" + strings.Join(elems, ", ") + "}"}, true
}

// argValue builds the concrete value of an SSA parameter of type t held in SMT term `term`.
func (rc *replayCtx) argValue(term string, t types.Type) (cval, bool) {
	t = types.Unalias(t)
	switch tt := t.Underlying().(type) {
	case *types.Basic:
		switch {
		case tt.Info()&types.IsBoolean != 0:
			v := rc.s.value(term)
			return cval{goExpr: v, smt: v}, v == "true" || v == "false"
		case tt.Info()&types.IsInteger != 0:
			n, ok := parseIntTerm(rc.s.value(term))
			if !ok {
				return cval{}, false
			}
			return cval{goExpr: fmt.Sprintf("%s(%d)", types.TypeString(t, shortQual), n), smt: intLit(n)}, true
		case tt.Info()&types.IsString != 0:
			s, ok := rc.strValue(term)
			if !ok {
				return cval{}, false
			}
			if _, named := t.(*types.Named); named {
				return cval{goExpr: types.TypeString(t, shortQual) + "(" + goStr(s) + ")", smt: "STR:" + s}, true
			}
			return cval{goExpr: goStr(s), smt: "STR:" + s}, true
		}
		rc.fail = "parameter of type " + t.String()
		return cval{}, false
	case *types.Interface:
		return rc.valTerm(term, 0)
	case *types.Slice:
		if kindOf(t) == kSlice {
			return rc.sliceTerm(term, 0)
		}
	case *types.Pointer:
		if kindOf(t) == kBig {
			ref := rc.s.value(term)
			if ref == "0" {
				return cval{goExpr: "(*big.Int)(nil)", smt: "0"}, true
			}
			val := strings.TrimSpace(rc.s.value(sel(rc.c.entry["BIG"], term)))
			neg := strings.HasPrefix(val, "(-")
			val = strings.TrimSuffix(strings.TrimPrefix(val, "(- "), ")")
			if neg {
				val = "-" + val
			}
			if _, ok := new(bigIntT).SetString(val, 10); !ok {
				return cval{}, false
			}
			rc.bigs[ref] = val
			return cval{goExpr: "mustBig(" + goStr(val) + ")", smt: "BIGP:" + ref + ":" + val}, true
		}
		// pointer to a struct of the package with scalar fields: built field by field from the model
		if st, ok := types.Unalias(tt.Elem()).Underlying().(*types.Struct); ok {
			if n, ok := types.Unalias(tt.Elem()).(*types.Named); ok && n.Obj().Pkg() != nil && rc.e.ownPkg(n.Obj().Pkg().Path()) {
				ref := rc.s.value(term)
				if ref == "0" {
					return cval{goExpr: "(*" + n.Obj().Name() + ")(nil)"}, true
				}
				var fields []string
				for i := 0; i < st.NumFields(); i++ {
					f := st.Field(i)
					hname := heapField(tt.Elem(), i)
					h, ok := rc.c.entry[hname]
					if !ok {
						continue // field never read: zero value
					}
					fv, ok := rc.argValue(sel(h, term), f.Type())
					if !ok {
						if basicInfo(f.Type()) == 0 {
							rc.fail = ""
							continue // non-scalar field: zero value
						}
						return cval{}, false
					}
					fields = append(fields, f.Name()+": "+fv.goExpr)
				}
				return cval{goExpr: "&" + n.Obj().Name() + "{" + strings.Join(fields, ", ") + "}"}, true
			}
		}
	}
	rc.fail = "parameter of type " + t.String() + " cannot be built from the model"
	return cval{}, false
}

// ---------- the replay ----------

func (e *Engine) replayObligation(o *Oblig, cfg *solverCfg) replayResult {
	var sb strings.Builder
	c := o.ctx
	if c == nil || c.fn == nil || strings.HasPrefix(c.key, "lemma.") {
		return replayResult{text: "replay: not a function obligation\n"}
	}
	sess, status, err := startSession(c.queryText(o, true))
	if err != nil || status != "sat" {
		if sess != nil {
			sess.close()
		}
		return replayResult{text: fmt.Sprintf("counterexample: the solver answered sat but gave no model on re-query (%s)\n", status)}
	}
	defer sess.close()
	// prefer a small model: bounded lengths of the container and string parameters
	var small []string
	for _, p := range c.fn.Params {
		t := c.vals[p]
		switch tt := types.Unalias(p.Type()).Underlying().(type) {
		case *types.Slice:
			small = append(small, le(app("s-len", t), "4"))
		case *types.Basic:
			if tt.Info()&types.IsString != 0 {
				small = append(small, le(app("slen", t), "12"))
			}
		case *types.Interface:
			small = append(small, implies(app("(_ is VSlice)", t), le(app("s-len", app("vslice", t)), "3")))
			small = append(small, implies(app("(_ is VStr)", t), le(app("slen", app("vstr", t)), "8")))
		}
	}
	if len(small) > 0 {
		io.WriteString(sess.in, "(push 1)\n(assert "+and(small...)+")\n(check-sat)\n")
		st, _ := sess.readExpr()
		if strings.TrimSpace(st) != "sat" {
			io.WriteString(sess.in, "(pop 1)\n(check-sat)\n")
			st2, _ := sess.readExpr()
			if strings.TrimSpace(st2) != "sat" {
				return replayResult{text: "counterexample: no model on re-query\n"}
			}
		}
	}
	rc := &replayCtx{e: e, c: c, s: sess, bigs: map[string]string{}}
	// target function and how to call it
	fn := c.fn
	call, ok := e.callPlan(fn)
	if !ok {
		sb.WriteString("counterexample found by the solver; replay on the real code: not available (" + call + ")\n")
		return replayResult{text: sb.String()}
	}
	var args []cval
	sb.WriteString("counterexample (solver model):\n")
	for _, p := range fn.Params {
		av, ok := rc.argValue(c.vals[p], p.Type())
		if !ok {
			fmt.Fprintf(&sb, "  %s: not representable (%s)\nreplay on the real code: not available\n", p.Name(), rc.fail)
			return replayResult{text: sb.String()}
		}
		fmt.Fprintf(&sb, "  %s = %s\n", p.Name(), av.goExpr)
		args = append(args, av)
	}
	out, err := e.runReplayTest(fn, call, args)
	sb.WriteString("replay on the real code (go test -overlay, nothing written under /repo):\n")
	sb.WriteString(indent(out, "  "))
	if err != nil {
		fmt.Fprintf(&sb, "  (test run failed: %v)\n", err)
	}
	panicked := strings.HasPrefix(out, "REPLAY-PANIC:") || strings.Contains(out, "\nREPLAY-PANIC:")
	switch {
	case isSafetyKind(o.Kind):
		if panicked {
			sb.WriteString("verdict: reproduced - the real function panics on this input\n")
			return replayResult{text: sb.String(), reproduced: true}
		}
		sb.WriteString("verdict: the real function did not panic on this input (model state not reachable or abstraction)\n")
		return replayResult{text: sb.String()}
	case o.Kind == "ensures" && o.Clause != nil:
		if panicked {
			sb.WriteString("verdict: reproduced - the real function panics instead of satisfying the postcondition\n")
			return replayResult{text: sb.String(), reproduced: true}
		}
		verdict, rep := e.evalClauseOnObserved(o, fn, args, out)
		sb.WriteString("verdict: " + verdict + "\n")
		return replayResult{text: sb.String(), reproduced: rep}
	}
	sb.WriteString("verdict: no concrete check for obligations of kind " + o.Kind + "\n")
	return replayResult{text: sb.String()}
}

func indent(s, p string) string {
	var sb strings.Builder
	for _, l := range strings.Split(strings.TrimRight(s, "\n"), "\n") {
		sb.WriteString(p + l + "\n")
	}
	return sb.String()
}

func isSafetyKind(k string) bool {
	switch k {
	case "index", "slice", "nil-deref", "type-assert", "div-zero", "make", "panic", "nil-map", "shift", "nil-receiver", "nil-interface-call", "box-nil-big", "bit-test":
		return true
	}
	return strings.HasPrefix(k, "call-requires:")
}

// callPlan: a Go expression template calling fn with arguments a0, a1, ... ("" if not callable).
func (e *Engine) callPlan(fn *ssa.Function) (string, bool) {
	if fn.TypeParams().Len() > 0 || len(fn.TypeArgs()) > 0 {
		return "generic function", false
	}
	n := len(fn.Params)
	argList := func(from int) string {
		var as []string
		for i := from; i < n; i++ {
			as = append(as, fmt.Sprintf("a%d", i))
		}
		return strings.Join(as, ", ")
	}
	if fn.Parent() != nil {
		// closure passed to binopTypeSwitch by a func(_, l, r any): reach it through the parent
		par := fn.Parent()
		if par.Parent() == nil && par.Signature.Recv() == nil && par.Signature.Params().Len() == 3 && n == 2 {
			allAny := true
			for i := 0; i < 3; i++ {
				if !isEmptyInterface(par.Signature.Params().At(i).Type()) {
					allAny = false
				}
			}
			if allAny {
				return par.Name() + "(nil, a0, a1)", true
			}
		}
		return "anonymous function", false
	}
	if fn.Signature.Recv() != nil {
		return "a0." + fn.Name() + "(" + argList(1) + ")", true
	}
	if fn.Signature.Variadic() {
		return fn.Name() + "(" + argList(0) + "...)", true
	}
	return fn.Name() + "(" + argList(0) + ")", true
}

func (e *Engine) runReplayTest(fn *ssa.Function, call string, args []cval) (string, error) {
	pk := e.fnPkg(fn)
	dir := getWorkDir()
	var sb strings.Builder
	fmt.Fprintf(&sb, "package %s\n\nimport (\n\t\"encoding/json\"\n\t\"fmt\"\n\t\"math/big\"\n\t\"testing\"\n)\n\n", pk.Pkg.Name())
	sb.WriteString("var _ = json.Number(\"\")\nvar _ = big.NewInt\n\n")
	sb.WriteString("func mustBig(s string) *big.Int { b, _ := new(big.Int).SetString(s, 10); return b }\n\n")
	sb.WriteString(`func zzShow(v any) string {
	switch x := v.(type) {
	case nil:
		return "nil"
	case bool:
		return fmt.Sprintf("bool:%v", x)
	case int:
		return fmt.Sprintf("int:%d", x)
	case *big.Int:
		if x == nil {
			return "bignil"
		}
		return "big:" + x.String()
	case string:
		return fmt.Sprintf("str:%q", x)
	case json.Number:
		return fmt.Sprintf("num:%q", string(x))
	case float64:
		return fmt.Sprintf("float:%v", x)
	case error:
		return fmt.Sprintf("type:%T", v)
	}
	return fmt.Sprintf("type:%T", v)
}

`)
	sb.WriteString("func TestZZVerifReplay(t *testing.T) {\n\tdefer func() {\n\t\tif r := recover(); r != nil {\n\t\t\tfmt.Printf(\"REPLAY-PANIC: %v\\n\", r)\n\t\t}\n\t}()\n")
	for i, a := range args {
		fmt.Fprintf(&sb, "\ta%d := %s\n\t_ = a%d\n", i, a.goExpr, i)
	}
	nres := fn.Signature.Results().Len()
	if nres == 0 {
		fmt.Fprintf(&sb, "\t%s\n\tfmt.Println(\"REPLAY-RETURNED\")\n", call)
	} else {
		var rs []string
		for i := 0; i < nres; i++ {
			rs = append(rs, fmt.Sprintf("r%d", i))
		}
		fmt.Fprintf(&sb, "\t%s := %s\n", strings.Join(rs, ", "), call)
		for i := 0; i < nres; i++ {
			fmt.Fprintf(&sb, "\tfmt.Printf(\"REPLAY-RESULT %d %%s\\n\", zzShow(any(r%d)))\n", i, i)
		}
	}
	sb.WriteString("}\n")
	testFile := filepath.Join(dir, "zz_verif_replay_test.go")
	os.WriteFile(testFile, []byte(sb.String()), 0o644)
	rel := "."
	pkgDir := e.repo
	if pk.Pkg.Path() == cliPath {
		rel = "./cli"
		pkgDir = filepath.Join(e.repo, "cli")
	}
	ov := map[string]any{"Replace": map[string]string{filepath.Join(pkgDir, "zz_verif_replay_test.go"): testFile}}
	ovData, _ := json.Marshal(ov)
	ovFile := filepath.Join(dir, "replay_overlay.json")
	os.WriteFile(ovFile, ovData, 0o644)
	ctx, cancel := context.WithTimeout(context.Background(), 120*time.Second)
	defer cancel()
	cmd := exec.CommandContext(ctx, "bash", "-c", fmt.Sprintf("cd %s && GOFLAGS=-mod=mod GOPROXY=off go test -overlay %s -v -vet=off -count=1 -timeout 60s -run '^TestZZVerifReplay$' %s 2>&1", e.repo, ovFile, rel))
	outb, err := cmd.CombinedOutput()
	var keep []string
	for _, l := range strings.Split(string(outb), "\n") {
		if strings.HasPrefix(l, "REPLAY-") || strings.Contains(l, "panic:") || strings.HasPrefix(l, "FAIL") || strings.Contains(l, ".go:") {
			keep = append(keep, l)
		}
	}
	keep = append(keep, "test source: "+strings.ReplaceAll(strings.TrimSpace(sb.String()[strings.Index(sb.String(), "func TestZZVerifReplay"):]), "\n", "\n    "))
	if strings.Contains(string(outb), "REPLAY-") {
		err = nil
	} else {
		lines := strings.Split(strings.TrimSpace(string(outb)), "\n")
		if len(lines) > 12 {
			lines = lines[:12]
		}
		keep = append(keep, "go test output: "+strings.Join(lines, " | "))
	}
	return strings.Join(keep, "\n") + "\n", err
}

// evalClauseOnObserved: substitute the concrete arguments and the observed results into the
// violated postcondition and let the solver evaluate it (ground query).
func (e *Engine) evalClauseOnObserved(o *Oblig, fn *ssa.Function, args []cval, out string) (string, bool) {
	c := e.newCtx(fn, &fnOpts{}, nil)
	c.entry = heapState{}
	c.cur = heapState{}
	c.heapDecl("ALLOC", "Int")
	c.heapDecl("BIG", "(Array Int Int)")
	c.assume(le("1000000", c.entry["ALLOC"]))
	big0 := c.entry["BIG"]
	nextRef := 2000
	mk := func(v string) (string, bool) {
		switch {
		case v == "":
			return "", false
		case strings.HasPrefix(v, "STR:"):
			return app("VStr", c.strLit(v[4:])), true
		case strings.HasPrefix(v, "NUM:"):
			return app("VNum", c.strLit(v[4:])), true
		case strings.HasPrefix(v, "BIG:"):
			parts := strings.SplitN(v[4:], ":", 2)
			n, _ := new(bigIntT).SetString(parts[1], 10)
			c.assume(eq(sel(big0, parts[0]), bigLit(n)))
			c.assume(eq(app("pubval", parts[0]), bigLit(n)))
			c.assume(lt("0", parts[0]))
			return app("VBig", parts[0]), true
		}
		return v, true
	}
	env := c.conEnv()
	env.pkg = c.pkgTypes()
	env.vars = map[string]sv{}
	con := c.con
	if con == nil {
		return "no contract to evaluate", false
	}
	for i, p := range fn.Params {
		name := p.Name()
		if i < len(con.Params) {
			name = con.Params[i]
		}
		raw := args[i].smt
		if strings.HasPrefix(raw, "BIGP:") {
			parts := strings.SplitN(raw[5:], ":", 2)
			n, _ := new(bigIntT).SetString(parts[1], 10)
			c.assume(eq(sel(big0, parts[0]), bigLit(n)))
			env.vars[name] = sv{parts[0], p.Type()}
			continue
		}
		if isStrT(p.Type()) && strings.HasPrefix(raw, "STR:") {
			env.vars[name] = sv{c.strLit(raw[4:]), p.Type()}
			continue
		}
		t, ok := mk(raw)
		if !ok {
			return "argument " + name + " has no ground SMT term; clause not evaluated on the observed run", false
		}
		env.vars[name] = sv{t, p.Type()}
	}
	// observed results
	post := big0
	names := con.Results
	res := fn.Signature.Results()
	for i := 0; i < res.Len(); i++ {
		var line string
		for _, l := range strings.Split(out, "\n") {
			if strings.HasPrefix(l, fmt.Sprintf("REPLAY-RESULT %d ", i)) {
				line = strings.TrimPrefix(l, fmt.Sprintf("REPLAY-RESULT %d ", i))
			}
		}
		if i >= len(names) || names[i] == "" {
			continue
		}
		rt := res.At(i).Type()
		var term string
		switch {
		case line == "":
			return "no observed result", false
		case strings.HasPrefix(line, "int:"):
			n, _ := strconv.ParseInt(line[4:], 10, 64)
			if isInterface(rt) {
				term = app("VInt", intLit(n))
			} else {
				term = intLit(n)
			}
		case strings.HasPrefix(line, "bool:"):
			if isInterface(rt) {
				term = app("VBool", line[5:])
			} else {
				term = line[5:]
			}
		case line == "nil":
			term = c.zero(rt)
		case strings.HasPrefix(line, "big:"):
			n, _ := new(bigIntT).SetString(line[4:], 10)
			nextRef++
			ref := strconv.Itoa(nextRef + 1000000)
			post = sto(post, ref, bigLit(n))
			c.assume(eq(app("pubval", ref), bigLit(n)))
			if isInterface(rt) {
				term = app("VBig", ref)
			} else {
				term = ref
			}
		case strings.HasPrefix(line, "str:"):
			s, err := strconv.Unquote(line[4:])
			if err != nil {
				return "unparsable result", false
			}
			if isInterface(rt) {
				term = app("VStr", c.strLit(s))
			} else {
				term = c.strLit(s)
			}
		case strings.HasPrefix(line, "num:"):
			s, _ := strconv.Unquote(line[4:])
			term = app("VNum", c.strLit(s))
		case strings.HasPrefix(line, "float:"):
			f := c.fresh("obsf")
			c.declare(f, "F64")
			if isInterface(rt) {
				term = app("VF64", f)
			} else {
				term = f
			}
		case strings.HasPrefix(line, "type:"):
			ty := e.typeByGoString(line[5:])
			if ty == nil {
				return "observed result of type " + line[5:] + " has no SMT term", false
			}
			term = app("VOther", strconv.Itoa(c.sorts.typeID(ty)), "1")
		default:
			return "unparsable result", false
		}
		env.vars[names[i]] = sv{term, rt}
	}
	env.old = c.entry.clone()
	cur := c.entry.clone()
	if post != big0 {
		nv := c.fresh("BIG@post")
		c.declare(nv, "(Array Int Int)")
		c.assume(eq(nv, post))
		cur["BIG"] = nv
	}
	env.heap = cur
	t, err := env.evalBool(o.Clause.E)
	if err != nil {
		return "clause not evaluable on concrete values: " + err.Error(), false
	}
	if len(c.usedSpecFuncs) > 0 {
		return "the clause mentions uninterpreted specification functions; it cannot be decided on concrete values", false
	}
	c.finalize()
	ob := &Oblig{Name: "replay-eval", Goal: t, Prefix: len(c.ctx), ctx: c}
	file := filepath.Join(getWorkDir(), "replay_eval.smt2")
	os.WriteFile(file, []byte(c.queryText(ob, true)), 0o644)
	r := runSolver(context.Background(), "z3-new", file, 10000, 1)
	switch r.status {
	case "sat":
		return "reproduced - the observed results of the real function violate the clause: " + o.Clause.Text, true
	case "unsat":
		return "the observed results satisfy the clause (the model describes a state or abstraction the real code does not reach)", false
	}
	return "ground evaluation of the clause was inconclusive (" + r.status + ")", false
}

func (e *Engine) typeByGoString(s string) types.Type {
	for _, nt := range e.named {
		n := nt.(*types.Named)
		short := n.Obj().Pkg().Name() + "." + n.Obj().Name()
		if s == short {
			return nt
		}
		if s == "*"+short {
			return types.NewPointer(nt)
		}
	}
	return nil
}

// cmdReplay: re-run the check that produced a replay file (the file names the obligation).
func cmdReplay(args []string) int {
	if len(args) < 1 {
		fmt.Fprintln(os.Stderr, "usage: govc replay <replay-file>")
		return 2
	}
	data, err := os.ReadFile(args[0])
	if err != nil {
		fmt.Fprintln(os.Stderr, err)
		return 2
	}
	fmt.Print(string(data))
	var prop, fnName string
	for _, l := range strings.Split(string(data), "\n") {
		if strings.HasPrefix(l, "property: ") {
			prop = strings.TrimPrefix(l, "property: ")
		}
		if strings.HasPrefix(l, "function: ") {
			fnName = strings.TrimPrefix(l, "function: ")
		}
	}
	if prop == "" {
		return 0
	}
	fmt.Printf("\n--- re-running the check of %s restricted to %s on the current tree ---\n", prop, fnName)
	a := []string{prop}
	if fnName != "" {
		a = append(a, "--only", "^"+regexpQuote(fnName)+"$")
	}
	return cmdCheck(a)
}

func regexpQuote(s string) string {
	var sb strings.Builder
	for _, ch := range s {
		if strings.ContainsRune(`\.+*?()|[]{}^$`, ch) {
			sb.WriteByte('\\')
		}
		sb.WriteRune(ch)
	}
	return sb.String()
}
