package main

import (
	"context"
	"fmt"
	"os"
	"path/filepath"
	"strings"
)

type replayResult struct {
	text       string
	reproduced bool
}

// modelOf re-runs a sat query asking for the values of the function's parameters.
func (e *Engine) modelOf(o *Oblig) (map[string]string, string) {
	c := o.ctx
	q := c.queryText(o, true)
	var names []string
	for _, p := range c.fn.Params {
		if t, ok := c.vals[p]; ok {
			names = append(names, t)
		}
	}
	if len(names) > 0 {
		q += "(get-value (" + strings.Join(names, " ") + "))\n"
	}
	file := filepath.Join(getWorkDir(), "model_"+fileSafe.ReplaceAllString(o.Name, "_")+".smt2")
	os.WriteFile(file, []byte(q), 0o644)
	defer os.Remove(file)
	r := runSolver(context.Background(), "z3-new", file, 10000, 1)
	if r.status != "sat" {
		return nil, r.output
	}
	vals := map[string]string{}
	rest := strings.SplitN(r.output, "\n", 2)
	if len(rest) == 2 {
		txt := strings.TrimSpace(rest[1])
		if h, args, ok := splitTop(txt); ok {
			items := append([]string{h}, args...)
			for _, it := range items {
				if k, v, ok := splitTop(it); ok && len(v) == 1 {
					vals[k] = v[0]
				}
			}
		}
	}
	return vals, r.output
}

func (e *Engine) replayObligation(o *Oblig, cfg *solverCfg) replayResult {
	vals, out := e.modelOf(o)
	var sb strings.Builder
	if vals == nil {
		sb.WriteString("counterexample: the solver answered sat but gave no model on re-query\n" + out)
		return replayResult{text: sb.String()}
	}
	sb.WriteString("counterexample (solver model of the parameters):\n")
	for _, p := range o.ctx.fn.Params {
		fmt.Fprintf(&sb, "  %s = %s\n", p.Name(), vals[o.ctx.vals[p]])
	}
	rr := e.replayOnRealCode(o, vals, &sb)
	return replayResult{text: sb.String(), reproduced: rr}
}
