package main

import (
	"fmt"
	"math/big"
	"regexp"
	"strconv"
	"strings"
	"unicode"
)

// ---------- spec expression AST ----------

type Expr interface{}

type (
	EIdent struct{ Name string }
	EInt   struct{ Val *big.Int }
	EStr   struct{ Val string }
	EBool  struct{ Val bool }
	ENil   struct{}
	EUnary struct {
		Op string
		X  Expr
	}
	EBinary struct {
		Op   string
		X, Y Expr
	}
	ECond struct{ C, A, B Expr }
	ECall struct {
		Fun  string
		Args []Expr
	}
	ESel struct {
		X    Expr
		Name string
	}
	EIndex struct{ X, I Expr }
	ESlice struct{ X, Lo, Hi Expr }
	QVar   struct{ Name, Type string }
	EQuant struct {
		Forall bool
		Vars   []QVar
		Body   Expr
		Pats   []Expr
	}
	EOld struct{ X Expr }
	EIs  struct {
		X    Expr
		Type string
	}
	EAssert struct {
		X    Expr
		Type string
	}
)

// ---------- tokenizer ----------

type tok struct {
	kind string // "id", "int", "str", "chr", "op", "eof"
	text string
	pos  int
}

func tokenize(src string) ([]tok, error) {
	var toks []tok
	i := 0
	for i < len(src) {
		ch := src[i]
		switch {
		case ch == ' ' || ch == '\t' || ch == '\n' || ch == '\r':
			i++
		case ch == '/' && i+1 < len(src) && src[i+1] == '/':
			i = len(src)
		case unicode.IsLetter(rune(ch)) || ch == '_':
			j := i
			for j < len(src) && (unicode.IsLetter(rune(src[j])) || unicode.IsDigit(rune(src[j])) || src[j] == '_' || src[j] == '$') {
				j++
			}
			toks = append(toks, tok{"id", src[i:j], i})
			i = j
		case ch >= '0' && ch <= '9':
			j := i
			for j < len(src) && (unicode.IsLetter(rune(src[j])) || unicode.IsDigit(rune(src[j])) || src[j] == '_') {
				j++
			}
			toks = append(toks, tok{"int", src[i:j], i})
			i = j
		case ch == '"':
			j := i + 1
			for j < len(src) && src[j] != '"' {
				if src[j] == '\\' {
					j++
				}
				j++
			}
			if j >= len(src) {
				return nil, fmt.Errorf("unterminated string at %d", i)
			}
			s, err := strconv.Unquote(src[i : j+1])
			if err != nil {
				return nil, fmt.Errorf("bad string %s: %v", src[i:j+1], err)
			}
			toks = append(toks, tok{"str", s, i})
			i = j + 1
		case ch == '\'':
			j := i + 1
			for j < len(src) && src[j] != '\'' {
				if src[j] == '\\' {
					j++
				}
				j++
			}
			if j >= len(src) {
				return nil, fmt.Errorf("unterminated char at %d", i)
			}
			r, _, _, err := strconv.UnquoteChar(src[i+1:j], '\'')
			if err != nil {
				return nil, fmt.Errorf("bad char %s: %v", src[i:j+1], err)
			}
			toks = append(toks, tok{"int", strconv.Itoa(int(r)), i})
			i = j + 1
		default:
			ops := []string{"<==>", "==>", "::", "==", "!=", "<=", ">=", "&&", "||", "<<", ">>", "++"}
			matched := false
			for _, op := range ops {
				if strings.HasPrefix(src[i:], op) {
					toks = append(toks, tok{"op", op, i})
					i += len(op)
					matched = true
					break
				}
			}
			if !matched {
				toks = append(toks, tok{"op", string(ch), i})
				i++
			}
		}
	}
	toks = append(toks, tok{"eof", "", len(src)})
	return toks, nil
}

// ---------- parser ----------

type parser struct {
	toks []tok
	p    int
	src  string
}

func parseExpr(src string) (e Expr, err error) {
	toks, err := tokenize(src)
	if err != nil {
		return nil, err
	}
	ps := &parser{toks: toks, src: src}
	defer func() {
		if r := recover(); r != nil {
			if pe, ok := r.(parseErr); ok {
				err = fmt.Errorf("%s in %q", string(pe), src)
				return
			}
			panic(r)
		}
	}()
	e = ps.expr(0)
	if ps.peek().kind != "eof" {
		ps.fail("unexpected %q", ps.peek().text)
	}
	return e, nil
}

type parseErr string

func (ps *parser) fail(format string, args ...any) {
	panic(parseErr(fmt.Sprintf(format, args...) + fmt.Sprintf(" at %d", ps.peek().pos)))
}
func (ps *parser) peek() tok { return ps.toks[ps.p] }
func (ps *parser) next() tok {
	t := ps.toks[ps.p]
	if ps.p < len(ps.toks)-1 {
		ps.p++
	}
	return t
}
func (ps *parser) isOp(s string) bool { t := ps.peek(); return t.kind == "op" && t.text == s }
func (ps *parser) isID(s string) bool { t := ps.peek(); return t.kind == "id" && t.text == s }
func (ps *parser) expect(s string) {
	if !ps.isOp(s) {
		ps.fail("expected %q, got %q", s, ps.peek().text)
	}
	ps.next()
}

var binPrec = map[string]int{
	"<==>": 1, "==>": 2, "||": 4, "&&": 5,
	"==": 6, "!=": 6, "<": 6, "<=": 6, ">": 6, ">=": 6,
	"+": 7, "-": 7, "++": 7, "|": 7, "^": 7,
	"*": 8, "/": 8, "%": 8, "<<": 8, ">>": 8, "&": 8,
}

func (ps *parser) expr(minPrec int) Expr {
	lhs := ps.unary()
	for {
		t := ps.peek()
		if t.kind == "op" && t.text == "?" && minPrec <= 3 {
			ps.next()
			a := ps.expr(0)
			ps.expect(":")
			b := ps.expr(3)
			lhs = &ECond{lhs, a, b}
			continue
		}
		if t.kind == "id" && t.text == "is" && minPrec <= 6 {
			ps.next()
			lhs = &EIs{lhs, ps.typeText()}
			continue
		}
		if t.kind == "id" && t.text == "mod" && minPrec <= 8 {
			ps.next()
			rhs := ps.expr(9)
			lhs = &EBinary{"mod", lhs, rhs}
			continue
		}
		if t.kind == "id" && t.text == "in" && minPrec <= 6 {
			ps.next()
			rhs := ps.expr(7)
			lhs = &EBinary{"in", lhs, rhs}
			continue
		}
		prec, ok := binPrec[t.text]
		if t.kind != "op" || !ok || prec < minPrec {
			return lhs
		}
		ps.next()
		var rhs Expr
		if t.text == "==>" || t.text == "<==>" { // right associative
			rhs = ps.expr(prec)
		} else {
			rhs = ps.expr(prec + 1)
		}
		lhs = &EBinary{t.text, lhs, rhs}
	}
}

func (ps *parser) unary() Expr {
	t := ps.peek()
	if t.kind == "op" && (t.text == "!" || t.text == "-") {
		ps.next()
		return &EUnary{t.text, ps.unary()}
	}
	return ps.postfix(ps.primary())
}

func (ps *parser) primary() Expr {
	t := ps.next()
	switch t.kind {
	case "int":
		txt := strings.ReplaceAll(t.text, "_", "")
		n := new(big.Int)
		if _, ok := n.SetString(txt, 0); !ok {
			ps.fail("bad integer %q", t.text)
		}
		return &EInt{n}
	case "str":
		return &EStr{t.text}
	case "id":
		switch t.text {
		case "true":
			return &EBool{true}
		case "false":
			return &EBool{false}
		case "nil":
			return &ENil{}
		case "forall", "exists":
			q := &EQuant{Forall: t.text == "forall"}
			for {
				var names []string
				for {
					n := ps.next()
					if n.kind != "id" {
						ps.fail("expected variable name")
					}
					names = append(names, n.text)
					if ps.isOp(",") {
						ps.next()
						continue
					}
					break
				}
				ty := "int"
				if !ps.isOp("::") && !ps.isOp(";") {
					ty = ps.typeText()
				}
				for _, n := range names {
					q.Vars = append(q.Vars, QVar{n, ty})
				}
				if ps.isOp(";") {
					ps.next()
					continue
				}
				break
			}
			ps.expect("::")
			for ps.isOp("{") { // trigger: { expr, expr }
				ps.next()
				for {
					q.Pats = append(q.Pats, ps.expr(0))
					if ps.isOp(",") {
						ps.next()
						continue
					}
					break
				}
				ps.expect("}")
			}
			q.Body = ps.expr(0)
			return q
		case "old":
			if ps.isOp("(") {
				ps.next()
				x := ps.expr(0)
				ps.expect(")")
				return &EOld{x}
			}
		}
		if ps.isOp("(") {
			ps.next()
			var args []Expr
			for !ps.isOp(")") {
				args = append(args, ps.expr(0))
				if ps.isOp(",") {
					ps.next()
				} else {
					break
				}
			}
			ps.expect(")")
			return &ECall{t.text, args}
		}
		return &EIdent{t.text}
	case "op":
		if t.text == "(" {
			e := ps.expr(0)
			ps.expect(")")
			return e
		}
	}
	ps.p--
	ps.fail("unexpected %q", t.text)
	return nil
}

func (ps *parser) postfix(e Expr) Expr {
	for {
		switch {
		case ps.isOp("."):
			ps.next()
			if ps.isOp("(") {
				ps.next()
				ty := ps.typeText()
				ps.expect(")")
				e = &EAssert{e, ty}
				continue
			}
			n := ps.next()
			if n.kind != "id" {
				ps.fail("expected field name")
			}
			e = &ESel{e, n.text}
		case ps.isOp("["):
			ps.next()
			var lo, hi Expr
			if !ps.isOp(":") {
				lo = ps.expr(0)
			}
			if ps.isOp(":") {
				ps.next()
				if !ps.isOp("]") {
					hi = ps.expr(0)
				}
				ps.expect("]")
				e = &ESlice{e, lo, hi}
			} else {
				ps.expect("]")
				e = &EIndex{e, lo}
			}
		default:
			return e
		}
	}
}

// typeText consumes a Go type expression and returns its text.
func (ps *parser) typeText() string {
	var sb strings.Builder
	for {
		switch {
		case ps.isOp("*"):
			ps.next()
			sb.WriteString("*")
			continue
		case ps.isOp("["):
			ps.next()
			if ps.isOp("]") {
				ps.next()
				sb.WriteString("[]")
			} else {
				n := ps.next()
				ps.expect("]")
				sb.WriteString("[" + n.text + "]")
			}
			continue
		case ps.isID("map"):
			ps.next()
			ps.expect("[")
			k := ps.typeText()
			ps.expect("]")
			sb.WriteString("map[" + k + "]")
			continue
		case ps.isID("struct"):
			ps.next()
			ps.expect("{")
			ps.expect("}")
			sb.WriteString("struct{}")
			return sb.String()
		}
		break
	}
	n := ps.next()
	if n.kind != "id" {
		ps.fail("expected type name, got %q", n.text)
	}
	sb.WriteString(n.text)
	if ps.isOp(".") && ps.p+1 < len(ps.toks) && ps.toks[ps.p+1].kind == "id" {
		ps.next()
		sb.WriteString("." + ps.next().text)
	}
	return sb.String()
}

var ghostSetRe = regexp.MustCompile(`^ghost\((.+),\s*"([A-Za-z_][A-Za-z0-9_]*)"\)\s*=\s*(.+)$`)

// parseGhostSet parses `ghost(x, "name") = E`.
func parseGhostSet(text string) (*Clause, error) {
	m := ghostSetRe.FindStringSubmatch(strings.TrimSpace(text))
	if m == nil {
		return nil, fmt.Errorf("bad ghost assignment %q (expected ghost(x, \"name\") = E)", text)
	}
	obj, err := parseExpr(m[1])
	if err != nil {
		return nil, err
	}
	val, err := parseExpr(m[3])
	if err != nil {
		return nil, err
	}
	return &Clause{Kind: "setghost", Text: text, GhostObj: obj, GhostName: m[2], E: val}, nil
}

// ---------- contracts ----------

type Clause struct {
	Kind      string // requires, ensures, invariant, decreases, modifies, assume, assert, setghost
	GhostObj  Expr   // setghost: the object whose ghost field is assigned
	GhostName string // setghost: the field
	Callee    string // callassert: name of the called function
	Loop      int    // for loop clauses (1-based)
	Ret       int    // ensures clauses restricted to the Ret-th return statement (source order), 0 = all
	Props     []string
	Text      string
	E         Expr
	Line      int
	File      string
}

type Param struct{ Name, Type string }

// ModItem: one item of a modifies clause: a whole heap (Heap != ""), or a location expression:
// x.f (field f of object x), elems(x) (the backing array of slice x), entries(m) (map m),
// bigval(p) (the big integer p points to).
type ModItem struct {
	Heap string
	E    Expr
	Text string
	Line int
}

type Contract struct {
	Key      string // function key within its package, e.g. "clampIndex", "(*stack).push", "funcOpAdd$1"
	Pkg      string // package path ("" for externals means key is fully qualified)
	External bool
	Trusted  bool // contract is assumed, body not verified
	Params   []string
	PTypes   []string // parameter types as written in the contract ("" if not given)
	Results  []string
	Clauses  []*Clause
	Modifies []string // heap names or "*" patterns; nil means pure (nothing pre-existing modified)
	ModItems []*ModItem
	ModAll   bool
	NReturns int // if > 0: the function must have exactly this many return statements
	Using    []string
	Flags    map[string]bool
	Panics   bool
	File     string
	Line     int
	Sig      string
}

type SpecFunc struct {
	Reads  []string // heaps an uninterpreted spec function depends on
	Name   string
	Params []Param
	Result string
	Body   Expr // nil: uninterpreted
	Text   string
	File   string
	Line   int
}

type Axiom struct {
	Name string
	E    Expr
	Text string
	File string
	Line int
}

type EnumVar struct {
	Name   string
	Lo, Hi int
}

type Lemma struct {
	Using     []string
	Name      string
	Params    []Param
	Clauses   []*Clause
	Props     []string
	Induct    string    // induction variable (hypothesis at value-1)
	HeapValid bool      // elements stored in the value heaps are valid values (needed when hypotheses are instantiated at elements)
	General   []string  // parameters the induction hypothesis is universally quantified over (structural induction)
	Enum      []EnumVar // parameters enumerated over a finite range (exhaustive = complete)
	Triggers  []Expr
	TrigText  string
	File      string
	Line      int
	Pkg       string
}

type TypeInv struct {
	Var    string
	Type   string // e.g. "*stack"
	Pkg    string
	Clause *Clause
}

type SpecSet struct {
	TypeInvs  []*TypeInv
	Contracts map[string]*Contract // by pkgpath + "::" + key, or key for externals
	Funcs     map[string]*SpecFunc
	Axioms    []*Axiom
	Lemmas    []*Lemma
	Errors    []string
}

func newSpecSet() *SpecSet {
	return &SpecSet{Contracts: map[string]*Contract{}, Funcs: map[string]*SpecFunc{}}
}

// parseParams parses "a, b int, c string" into names with types.
func parseParamList(s string) []Param {
	s = strings.TrimSpace(s)
	if s == "" {
		return nil
	}
	var out []Param
	var pending []string
	depth := 0
	start := 0
	parts := []string{}
	for i := 0; i < len(s); i++ {
		switch s[i] {
		case '(', '[', '{':
			depth++
		case ')', ']', '}':
			depth--
		case ',':
			if depth == 0 {
				parts = append(parts, s[start:i])
				start = i + 1
			}
		}
	}
	parts = append(parts, s[start:])
	for _, p := range parts {
		p = strings.TrimSpace(p)
		if p == "" {
			continue
		}
		fs := strings.SplitN(p, " ", 2)
		if len(fs) == 1 {
			pending = append(pending, fs[0])
			continue
		}
		ty := strings.TrimSpace(fs[1])
		for _, n := range pending {
			out = append(out, Param{n, ty})
		}
		pending = nil
		out = append(out, Param{fs[0], ty})
	}
	for _, n := range pending {
		out = append(out, Param{n, ""})
	}
	return out
}

// splitSig parses "func (r *T) name(params) (results)" or "external pkg.(*T).M(params) (results)".
func splitSig(sig string) (recv string, name string, params, results string, err error) {
	s := strings.TrimSpace(sig)
	if strings.HasPrefix(s, "(") { // receiver, unless it is a qualified name such as (*T).m$1
		end := matchParen(s, 0)
		if end < 0 {
			return "", "", "", "", fmt.Errorf("bad receiver in %q", sig)
		}
		if end+1 < len(s) && s[end+1] == '.' {
			// closure of a method: the whole "(*T).m$1" is the name
			j := strings.IndexByte(s[end:], '(')
			if j < 0 {
				return "", strings.TrimSpace(s), "", "", nil
			}
			j += end
			name = strings.TrimSpace(s[:j])
			pe := matchParen(s, j)
			if pe < 0 {
				return "", "", "", "", fmt.Errorf("bad signature %q", sig)
			}
			params = s[j+1 : pe]
			rest := strings.TrimSpace(s[pe+1:])
			if strings.HasPrefix(rest, "(") {
				e2 := matchParen(rest, 0)
				if e2 < 0 {
					return "", "", "", "", fmt.Errorf("bad results %q", sig)
				}
				results = rest[1:e2]
			} else {
				results = rest
			}
			return "", name, params, results, nil
		}
		recv = s[1:end]
		s = strings.TrimSpace(s[end+1:])
	}
	// the name runs up to the '(' that starts the parameter list: the last top-level group
	// structure is name '(' params ')' [ '(' results ')' | result ]
	// names may contain parens for externals: math/big.(*Int).Add
	i := 0
	for {
		j := strings.IndexByte(s[i:], '(')
		if j < 0 {
			return recv, strings.TrimSpace(s), "", "", nil
		}
		j += i
		// is this paren part of the name, i.e. preceded by '.'?
		if j > 0 && s[j-1] == '.' {
			end := matchParen(s, j)
			if end < 0 {
				return "", "", "", "", fmt.Errorf("bad signature %q", sig)
			}
			i = end + 1
			continue
		}
		name = strings.TrimSpace(s[:j])
		end := matchParen(s, j)
		if end < 0 {
			return "", "", "", "", fmt.Errorf("bad signature %q", sig)
		}
		params = s[j+1 : end]
		rest := strings.TrimSpace(s[end+1:])
		if strings.HasPrefix(rest, "(") {
			e2 := matchParen(rest, 0)
			if e2 < 0 {
				return "", "", "", "", fmt.Errorf("bad results %q", sig)
			}
			results = rest[1:e2]
		} else {
			results = rest
		}
		return
	}
}

func matchParen(s string, i int) int {
	depth := 0
	for j := i; j < len(s); j++ {
		switch s[j] {
		case '(':
			depth++
		case ')':
			depth--
			if depth == 0 {
				return j
			}
		}
	}
	return -1
}

// parseSpecText parses the //@ lines of one file. pkgPath is the package the file belongs to
// ("" for the stdlib contract file, whose function names are fully qualified).
func (ss *SpecSet) parseSpecText(file, pkgPath, text string) {
	lines := strings.Split(text, "\n")
	var cur *Contract
	var curLemma *Lemma
	var props []string
	var last *Clause // for continuation lines
	var lastSF *SpecFunc
	var lastAx *Axiom
	errf := func(ln int, format string, args ...any) {
		ss.Errors = append(ss.Errors, fmt.Sprintf("%s:%d: %s", file, ln+1, fmt.Sprintf(format, args...)))
	}
	finish := func() {
		if last != nil {
			e, err := parseExpr(last.Text)
			if err != nil {
				errf(last.Line-1, "%v", err)
			}
			last.E = e
			last = nil
		}
		if lastSF != nil {
			if lastSF.Text != "" {
				e, err := parseExpr(lastSF.Text)
				if err != nil {
					errf(lastSF.Line-1, "%v", err)
				}
				lastSF.Body = e
			}
			lastSF = nil
		}
		if lastAx != nil {
			e, err := parseExpr(lastAx.Text)
			if err != nil {
				errf(lastAx.Line-1, "%v", err)
			}
			lastAx.E = e
			lastAx = nil
		}
	}
	for ln, raw := range lines {
		line := strings.TrimSpace(raw)
		if !strings.HasPrefix(line, "//@") {
			continue
		}
		body := strings.TrimSpace(line[3:])
		if body == "" {
			continue
		}
		// strip trailing comment
		if i := strings.Index(body, " // "); i >= 0 {
			body = strings.TrimSpace(body[:i])
		}
		word := body
		rest := ""
		if i := strings.IndexAny(body, " \t"); i >= 0 {
			word, rest = body[:i], strings.TrimSpace(body[i+1:])
		}
		switch word {
		case "func", "external", "trusted":
			finish()
			curLemma = nil
			recv, name, params, results, err := splitSig(rest)
			if err != nil {
				errf(ln, "%v", err)
				cur = nil
				continue
			}
			c := &Contract{Pkg: pkgPath, External: word == "external", Trusted: word != "func", File: file, Line: ln + 1, Flags: map[string]bool{}, Sig: rest}
			key := name
			if recv != "" {
				rp := parseParamList(recv)
				if len(rp) != 1 {
					errf(ln, "bad receiver %q", recv)
					continue
				}
				c.Params = append(c.Params, rp[0].Name)
				c.PTypes = append(c.PTypes, "")
				key = "(" + rp[0].Type + ")." + name
			}
			for _, p := range parseParamList(params) {
				c.Params = append(c.Params, p.Name)
				c.PTypes = append(c.PTypes, p.Type)
			}
			for _, p := range parseParamList(results) {
				c.Results = append(c.Results, p.Name)
			}
			c.Key = key
			full := key
			if pkgPath != "" && word != "external" {
				full = pkgPath + "::" + key
			}
			if ss.Contracts[full] != nil {
				errf(ln, "duplicate contract for %s", full)
			}
			ss.Contracts[full] = c
			if strings.Contains(full, "[") && strings.Contains(full, ",") {
				// instantiated generics: go/ssa separates the type arguments by spaces
				ss.Contracts[strings.ReplaceAll(full, ",", " ")] = c
			}
			cur = c
			props = nil
		case "pure":
			// //@ pure pkg.F pkg.(*T).M ... : assumed to write no modelled state (trusted)
			finish()
			cur, curLemma = nil, nil
			for _, name := range strings.Fields(rest) {
				if ss.Contracts[name] == nil {
					ss.Contracts[name] = &Contract{Key: name, External: true, Trusted: true, File: file, Line: ln + 1, Flags: map[string]bool{"pure-decl": true}, Sig: name}
				}
			}
		case "property":
			props = strings.Fields(rest)
			if curLemma != nil {
				curLemma.Props = props
			}
		case "induct":
			if curLemma != nil {
				curLemma.Induct = strings.TrimSpace(rest)
			}
		case "heapvalid":
			if curLemma != nil {
				curLemma.HeapValid = true
			}
		case "generalize":
			// //@ generalize a b : the induction hypothesis holds for all values of these parameters
			if curLemma != nil {
				curLemma.General = strings.Fields(rest)
			}
		case "enumerate":
			// //@ enumerate a 0 30
			if curLemma != nil {
				fs := strings.Fields(rest)
				if len(fs) == 3 {
					lo, e1 := strconv.Atoi(fs[1])
					hi, e2 := strconv.Atoi(fs[2])
					if e1 == nil && e2 == nil {
						curLemma.Enum = append(curLemma.Enum, EnumVar{fs[0], lo, hi})
						continue
					}
				}
				errf(ln, "bad enumerate clause")
			}
		case "trigger":
			if curLemma != nil {
				curLemma.TrigText = rest
				for _, t := range splitTopLevelCommas(rest) {
					e, err := parseExpr(strings.TrimSpace(t))
					if err != nil {
						errf(ln, "%v", err)
						continue
					}
					curLemma.Triggers = append(curLemma.Triggers, e)
				}
			}
		case "decreases":
			finish()
			if curLemma != nil {
				cl := &Clause{Kind: "decreases", Text: rest, Props: props, Line: ln + 1, File: file}
				curLemma.Clauses = append(curLemma.Clauses, cl)
				last = cl
			}
		case "requires", "ensures", "assume", "defines":
			finish()
			cl := &Clause{Kind: word, Text: rest, Props: props, Line: ln + 1, File: file}
			if curLemma != nil {
				curLemma.Clauses = append(curLemma.Clauses, cl)
			} else if cur != nil {
				cur.Clauses = append(cur.Clauses, cl)
			} else {
				errf(ln, "%s outside a contract", word)
				continue
			}
			last = cl
		case "closure":
			// //@ closure K captures E : obligation at the K-th closure creation of the function;
			// free-variable names of the closure denote the captured values
			finish()
			if cur == nil {
				errf(ln, "closure clause outside a contract")
				continue
			}
			fs := strings.SplitN(rest, " ", 3)
			if len(fs) < 3 || fs[1] != "captures" {
				errf(ln, "bad closure clause")
				continue
			}
			n, err := strconv.Atoi(fs[0])
			if err != nil {
				errf(ln, "bad closure clause %q", rest)
				continue
			}
			cl := &Clause{Kind: "captures", Loop: n, Text: fs[2], Props: props, Line: ln + 1, File: file}
			cur.Clauses = append(cur.Clauses, cl)
			last = cl
		case "returns":
			if cur != nil {
				n, err := strconv.Atoi(strings.TrimSpace(rest))
				if err != nil {
					errf(ln, "bad returns count")
					continue
				}
				cur.NReturns = n
			}
		case "return":
			// //@ return N ensures E : postcondition of the N-th return statement only
			finish()
			if cur == nil {
				errf(ln, "return clause outside a contract")
				continue
			}
			fs := strings.SplitN(rest, " ", 3)
			if len(fs) < 3 || (fs[1] != "ensures" && fs[1] != "use" && fs[1] != "set") {
				errf(ln, "bad return clause")
				continue
			}
			n, err := strconv.Atoi(fs[0])
			if err != nil {
				errf(ln, "bad return clause %q", rest)
				continue
			}
			if fs[1] == "set" {
				cl, err := parseGhostSet(fs[2])
				if err != nil {
					errf(ln, "%v", err)
					continue
				}
				cl.Ret, cl.Props, cl.Line, cl.File = n, props, ln+1, file
				cur.Clauses = append(cur.Clauses, cl)
				continue
			}
			cl := &Clause{Kind: fs[1], Ret: n, Text: fs[2], Props: props, Line: ln + 1, File: file}
			cur.Clauses = append(cur.Clauses, cl)
			last = cl
		case "loop":
			finish()
			if cur == nil {
				errf(ln, "loop clause outside a contract")
				continue
			}
			fs := strings.SplitN(rest, " ", 3)
			if len(fs) < 3 {
				errf(ln, "bad loop clause")
				continue
			}
			n, err := strconv.Atoi(fs[0])
			if err != nil || (fs[1] != "invariant" && fs[1] != "decreases" && fs[1] != "use") {
				errf(ln, "bad loop clause %q", rest)
				continue
			}
			kind := fs[1]
			if kind == "use" {
				// an instance of an axiom or lemma, stated for the values at the loop head
				kind = "loopuse"
			}
			cl := &Clause{Kind: kind, Loop: n, Text: fs[2], Props: props, Line: ln + 1, File: file}
			cur.Clauses = append(cur.Clauses, cl)
			last = cl
		case "modifies":
			finish()
			if cur == nil {
				errf(ln, "modifies outside a contract")
				continue
			}
			if cur.Modifies == nil {
				cur.Modifies = []string{}
			}
			for _, m := range splitTopLevelCommas(rest) {
				m = strings.TrimSpace(m)
				if m == "*" {
					cur.ModAll = true
				} else if m != "" {
					if heapNameRe.MatchString(m) {
						cur.Modifies = append(cur.Modifies, m)
						cur.ModItems = append(cur.ModItems, &ModItem{Heap: m, Text: m, Line: ln + 1})
					} else {
						e, err := parseExpr(m)
						if err != nil {
							errf(ln, "%v", err)
							continue
						}
						cur.ModItems = append(cur.ModItems, &ModItem{E: e, Text: m, Line: ln + 1})
					}
				}
			}
		case "call":
			// //@ call F requires E : at every call of F in this function the condition E holds, where
			// arg0, arg1, ... are the call's arguments and the function's own variables keep their names
			finish()
			if cur == nil {
				errf(ln, "call clause outside a contract")
				continue
			}
			fs := strings.SplitN(rest, " ", 3)
			if len(fs) < 3 || fs[1] != "requires" {
				errf(ln, "bad call clause (expected: call F requires E)")
				continue
			}
			cl := &Clause{Kind: "callassert", Callee: fs[0], Text: fs[2], Props: props, Line: ln + 1, File: file}
			cur.Clauses = append(cur.Clauses, cl)
			last = cl
		case "set":
			// //@ set ghost(x, "name") = E : ghost assignment made at every return (before the
			// postconditions and type invariants are checked)
			finish()
			if cur == nil {
				errf(ln, "set outside a contract")
				continue
			}
			cl, err := parseGhostSet(rest)
			if err != nil {
				errf(ln, "%v", err)
				continue
			}
			cl.Props, cl.Line, cl.File = props, ln+1, file
			cur.Clauses = append(cur.Clauses, cl)
		case "use":
			// in a lemma: an instance of an axiom or of another lemma, stated explicitly
			finish()
			if curLemma != nil {
				cl := &Clause{Kind: "use", Text: rest, Props: props, Line: ln + 1, File: file}
				curLemma.Clauses = append(curLemma.Clauses, cl)
				last = cl
			} else if cur != nil {
				cl := &Clause{Kind: "use", Text: rest, Props: props, Line: ln + 1, File: file}
				cur.Clauses = append(cur.Clauses, cl)
				last = cl
			}
		case "using":
			// restrict the spec axioms and lemmas available to this contract / lemma (fewer
			// assumptions: always sound, keeps queries small)
			names := strings.Fields(strings.ReplaceAll(rest, ",", " "))
			if curLemma != nil {
				curLemma.Using = append(curLemma.Using, names...)
			} else if cur != nil {
				cur.Using = append(cur.Using, names...)
			}
		case "flag":
			if cur != nil {
				for _, f := range strings.Fields(rest) {
					cur.Flags[f] = true
				}
			}
		case "panics":
			if cur != nil {
				cur.Panics = true
			}
		case "spec", "pred":
			finish()
			cur, curLemma = nil, nil
			sigText := rest
			if word == "spec" {
				sigText = strings.TrimSpace(strings.TrimPrefix(rest, "func"))
			}
			bodyText := ""
			// split at top-level '=' that is not part of ==, <=, >=, !=
			if i := topLevelAssign(sigText); i >= 0 {
				bodyText = strings.TrimSpace(sigText[i+1:])
				sigText = strings.TrimSpace(sigText[:i])
			}
			var reads []string
			if i := strings.Index(sigText, " reads "); i >= 0 {
				reads = strings.Fields(strings.ReplaceAll(sigText[i+7:], ",", " "))
				sigText = strings.TrimSpace(sigText[:i])
			}
			_, name, params, results, err := splitSig(sigText)
			if err != nil {
				errf(ln, "%v", err)
				continue
			}
			sf := &SpecFunc{Reads: reads, Name: name, Params: parseParamList(params), Result: strings.TrimSpace(results), Text: bodyText, File: file, Line: ln + 1}
			if word == "pred" {
				sf.Result = "bool"
			}
			if ss.Funcs[name] != nil {
				errf(ln, "duplicate spec func %s", name)
			}
			ss.Funcs[name] = sf
			lastSF = sf
		case "axiom":
			finish()
			cur, curLemma = nil, nil
			i := strings.Index(rest, ":")
			if i < 0 {
				errf(ln, "axiom needs a name")
				continue
			}
			ax := &Axiom{Name: strings.TrimSpace(rest[:i]), Text: strings.TrimSpace(rest[i+1:]), File: file, Line: ln + 1}
			ss.Axioms = append(ss.Axioms, ax)
			lastAx = ax
		case "invariant-of":
			// //@ invariant-of (s *stack) expr
			finish()
			cur, curLemma = nil, nil
			if !strings.HasPrefix(rest, "(") {
				errf(ln, "invariant-of needs a receiver")
				continue
			}
			end := matchParen(rest, 0)
			rp := parseParamList(rest[1:end])
			if end < 0 || len(rp) != 1 {
				errf(ln, "bad invariant-of receiver")
				continue
			}
			cl := &Clause{Kind: "type-invariant", Text: strings.TrimSpace(rest[end+1:]), Props: props, Line: ln + 1, File: file}
			ss.TypeInvs = append(ss.TypeInvs, &TypeInv{Var: rp[0].Name, Type: rp[0].Type, Pkg: pkgPath, Clause: cl})
			last = cl
		case "lemma":
			finish()
			cur = nil
			_, name, params, _, err := splitSig(rest)
			if err != nil {
				errf(ln, "%v", err)
				continue
			}
			curLemma = &Lemma{Name: name, Params: parseParamList(params), File: file, Line: ln + 1, Pkg: pkgPath}
			ss.Lemmas = append(ss.Lemmas, curLemma)
			props = nil
		default:
			// continuation of the previous clause / spec func body / axiom
			switch {
			case last != nil:
				last.Text += " " + body
			case lastSF != nil:
				lastSF.Text += " " + body
			case lastAx != nil:
				lastAx.Text += " " + body
			default:
				errf(ln, "unknown directive %q", word)
			}
		}
	}
	finish()
}

var heapNameRe = regexp.MustCompile(`^(HE_|HF_|HC_|HMD_|HMV_|HML_|BIG$|ALLOC$|OPAQUE$|GH_)[A-Za-z0-9_]*\*?$`)

func splitTopLevelCommas(s string) []string {
	var parts []string
	depth, start := 0, 0
	for i := 0; i < len(s); i++ {
		switch s[i] {
		case '(', '[':
			depth++
		case ')', ']':
			depth--
		case ',':
			if depth == 0 {
				parts = append(parts, s[start:i])
				start = i + 1
			}
		}
	}
	return append(parts, s[start:])
}

func topLevelAssign(s string) int {
	depth := 0
	for i := 0; i < len(s); i++ {
		switch s[i] {
		case '(', '[':
			depth++
		case ')', ']':
			depth--
		case '=':
			if depth == 0 {
				prev := byte(' ')
				if i > 0 {
					prev = s[i-1]
				}
				next := byte(' ')
				if i+1 < len(s) {
					next = s[i+1]
				}
				if prev != '=' && prev != '<' && prev != '>' && prev != '!' && next != '=' {
					return i
				}
			}
		}
	}
	return -1
}
