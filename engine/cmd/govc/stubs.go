package main

import "go/types"

type typesPackage = types.Package

func cmdSelftest(args []string) int { return 2 }
