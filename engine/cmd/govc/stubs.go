package main

import "go/types"

type typesPackage = types.Package
