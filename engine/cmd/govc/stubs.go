package main

import "go/types"

type typesPackage = types.Package

func cmdReplay(args []string) int   { return 2 }
func cmdSelftest(args []string) int { return 2 }

func (e *Engine) replayOnRealCode(o *Oblig, vals map[string]string, sb interface{ WriteString(string) (int, error) }) bool {
	sb.WriteString("replay on the real code: not available for this function shape\n")
	return false
}
