package main

import (
	"encoding/json"
	"fmt"
	"go/token"
	"go/types"
	"math/big"
	"os"
	"path/filepath"
	"sort"
	"strings"
	"sync"

	"golang.org/x/tools/go/packages"
	"golang.org/x/tools/go/ssa"
	"golang.org/x/tools/go/ssa/ssautil"
)

type bigIntT = big.Int

var bigOne = big.NewInt(1)

const (
	gojqPath = "github.com/itchyny/gojq"
	cliPath  = "github.com/itchyny/gojq/cli"
)

type Engine struct {
	repo       string
	verif      string
	fset       *token.FileSet
	prog       *ssa.Program
	pkgs       map[string]*ssa.Package
	tpkgs      map[string]*packages.Package
	specs      *SpecSet
	funcs      map[string]*ssa.Function // by pkgShort.key
	modCache   map[*ssa.Function]*modSet
	modMu      sync.Mutex
	named      []types.Type
	kinds      []kindType
	srcHash    map[string]string
	overlay    map[string][]byte
	ghostHeaps map[string]string
	special    map[string]*specialisation
}

type kindType struct {
	k valKind
	t types.Type
}

func (e *Engine) ownPkg(path string) bool { return path == gojqPath || path == cliPath }

func pkgShort(path string) string {
	switch path {
	case gojqPath:
		return "gojq"
	case cliPath:
		return "cli"
	}
	return path
}

func loadEngine(repo, verif string) (*Engine, error) {
	e := &Engine{repo: repo, verif: verif, pkgs: map[string]*ssa.Package{}, tpkgs: map[string]*packages.Package{}, funcs: map[string]*ssa.Function{}, modCache: map[*ssa.Function]*modSet{}}
	cfg := &packages.Config{Mode: packages.LoadAllSyntax, Dir: repo, BuildFlags: []string{"-tags=verif"}}
	if ov := os.Getenv("GOVC_OVERLAY"); ov != "" {
		// JSON: {"file": "content"} applied in memory (mutation self-test)
		m := map[string]string{}
		data, err := os.ReadFile(ov)
		if err != nil {
			return nil, err
		}
		if err := json.Unmarshal(data, &m); err != nil {
			return nil, err
		}
		cfg.Overlay = map[string][]byte{}
		for k, v := range m {
			cfg.Overlay[k] = []byte(v)
		}
		e.overlay = cfg.Overlay
	}
	pkgs, err := packages.Load(cfg, ".", "./cli")
	if err != nil {
		return nil, err
	}
	for _, p := range pkgs {
		if len(p.Errors) > 0 {
			return nil, fmt.Errorf("package %s: %v", p.PkgPath, p.Errors[0])
		}
	}
	e.fset = pkgs[0].Fset
	prog, _ := ssautil.AllPackages(pkgs, ssa.InstantiateGenerics|ssa.GlobalDebug)
	prog.Build()
	e.prog = prog
	for _, p := range pkgs {
		e.tpkgs[p.PkgPath] = p
	}
	for _, sp := range prog.AllPackages() {
		e.pkgs[sp.Pkg.Path()] = sp
	}
	// function index for the two packages
	for fn := range ssautil.AllFunctions(prog) {
		if pk := e.fnPkg(fn); pk != nil && e.ownPkg(pk.Pkg.Path()) {
			e.funcs[pkgShort(pk.Pkg.Path())+"."+e.funcKey(fn)] = fn
		}
	}
	// named types of the two packages and of packages whose values flow through interfaces
	seen := map[string]bool{}
	for _, sp := range prog.AllPackages() {
		path := sp.Pkg.Path()
		if !(e.ownPkg(path) || path == "errors" || path == "encoding/json" || path == "io" || path == "fmt" || path == "strconv" || path == "context" || path == "time" || path == "math/big" || path == "os" || path == "io/fs" || path == "regexp/syntax" || path == "github.com/itchyny/go-yaml" || path == "bytes" || path == "strings" || path == "bufio") {
			continue
		}
		scope := sp.Pkg.Scope()
		for _, n := range scope.Names() {
			if tn, ok := scope.Lookup(n).(*types.TypeName); ok && !tn.IsAlias() {
				if nt, ok := tn.Type().(*types.Named); ok && nt.TypeParams().Len() == 0 {
					k := types.TypeString(nt, nil)
					if !seen[k] {
						seen[k] = true
						e.named = append(e.named, nt)
					}
				}
			}
		}
	}
	sort.Slice(e.named, func(i, j int) bool { return types.TypeString(e.named[i], nil) < types.TypeString(e.named[j], nil) })
	// canonical types of the Val constructors
	anyT := types.Universe.Lookup("any").Type()
	e.kinds = []kindType{
		{kBool, types.Typ[types.Bool]}, {kInt, types.Typ[types.Int]}, {kF64, types.Typ[types.Float64]}, {kStr, types.Typ[types.String]},
		{kSlice, types.NewSlice(anyT)}, {kMap, types.NewMap(types.Typ[types.String], anyT)},
	}
	if bp := e.pkgs["math/big"]; bp != nil {
		e.kinds = append(e.kinds, kindType{kBig, types.NewPointer(bp.Pkg.Scope().Lookup("Int").Type())})
	}
	if jp := e.pkgs["encoding/json"]; jp != nil {
		e.kinds = append(e.kinds, kindType{kNum, jp.Pkg.Scope().Lookup("Number").Type()})
	}
	// contracts
	e.specs = newSpecSet()
	for _, spec := range []struct{ file, pkg string }{
		{filepath.Join(repo, "contracts_verif.go"), gojqPath},
		{filepath.Join(repo, "cli", "contracts_verif.go"), cliPath},
		{filepath.Join(verif, "contracts", "stdlib.vc"), ""},
	} {
		var data []byte
		if ov, ok := e.overlay[spec.file]; ok {
			data = ov
		} else {
			data, err = os.ReadFile(spec.file)
			if err != nil {
				if os.IsNotExist(err) {
					continue
				}
				return nil, err
			}
		}
		e.specs.parseSpecText(spec.file, spec.pkg, string(data))
	}
	e.buildSpecialisations()
	return e, nil
}

// specialisation: a function taking function parameters, verified once per call site with
// the parameters bound to the statically known callees (DESIGN §2.3 "call-site specialisation").
type specialisation struct {
	key    string // display key: gojq.binopTypeSwitch[any]@funcOpAdd
	fn     *ssa.Function
	caller *ssa.Function
	con    *Contract
	bound  map[ssa.Value]*ssa.Function
}

func (e *Engine) buildSpecialisations() {
	e.special = map[string]*specialisation{}
	for full, con := range e.specs.Contracts {
		i := strings.Index(con.Key, "@")
		if i < 0 || con.Pkg == "" {
			continue
		}
		short := pkgShort(con.Pkg)
		fn := e.funcs[short+"."+con.Key[:i]]
		caller := e.funcs[short+"."+con.Key[i+1:]]
		if fn == nil || caller == nil {
			continue // reported as "function not found" by the check
		}
		sp := &specialisation{key: short + "." + con.Key, fn: fn, caller: caller, con: con, bound: map[ssa.Value]*ssa.Function{}}
		for _, b := range caller.Blocks {
			for _, in := range b.Instrs {
				call, ok := in.(*ssa.Call)
				if !ok || call.Call.StaticCallee() != fn {
					continue
				}
				for ai, a := range call.Call.Args {
					if ai >= len(fn.Params) {
						break
					}
					if f := staticFuncValue(a); f != nil {
						sp.bound[fn.Params[ai]] = f
					}
				}
			}
		}
		e.special[sp.key] = sp
		e.funcs[sp.key] = fn
		_ = full
	}
}

// staticFuncValue: the function a function-typed SSA value statically denotes, if any.
func staticFuncValue(v ssa.Value) *ssa.Function {
	switch x := v.(type) {
	case *ssa.Function:
		// a method expression is wrapped in a thunk with the same parameters: use the method
		if strings.HasSuffix(x.Name(), "$thunk") {
			if obj, ok := x.Object().(*types.Func); ok && x.Prog != nil {
				if m := x.Prog.FuncValue(obj); m != nil {
					return m
				}
			}
		}
		return x
	case *ssa.MakeClosure:
		if len(x.Bindings) == 0 {
			return x.Fn.(*ssa.Function)
		}
		return x.Fn.(*ssa.Function)
	case *ssa.ChangeType:
		return staticFuncValue(x.X)
	}
	return nil
}

func (e *Engine) kindTypes() []kindType       { return e.kinds }
func (e *Engine) allNamedTypes() []types.Type { return e.named }

func (e *Engine) fnPkg(fn *ssa.Function) *ssa.Package {
	for fn.Pkg == nil && fn.Parent() != nil {
		fn = fn.Parent()
	}
	if fn.Pkg != nil {
		return fn.Pkg
	}
	if fn.Origin() != nil {
		return e.fnPkg(fn.Origin())
	}
	return nil
}

// funcKey is the contract key of a function within its package: "name", "(*T).m", "(T).m",
// "outer$1".
func (e *Engine) funcKey(fn *ssa.Function) string {
	if fn.Parent() != nil {
		// anonymous function: parentKey$N — ssa names them parent$N
		name := fn.Name() // e.g. funcOpAdd$1
		if recv := fn.Parent().Signature.Recv(); recv != nil {
			_ = recv
		}
		pk := e.funcKey(fn.Parent())
		if i := strings.LastIndex(name, "$"); i >= 0 {
			return pk + name[i:]
		}
		return name
	}
	if recv := fn.Signature.Recv(); recv != nil {
		rt := types.TypeString(types.Unalias(recv.Type()), func(*types.Package) string { return "" })
		return "(" + rt + ")." + fn.Name()
	}
	return fn.Name()
}

// qualKey is the fully qualified key used for externals: "math/big.(*Int).Add".
func (e *Engine) qualKey(fn *ssa.Function) string {
	pk := e.fnPkg(fn)
	if pk == nil {
		return fn.String()
	}
	return pk.Pkg.Path() + "." + e.funcKey(fn)
}

func (e *Engine) displayKey(fn *ssa.Function) string {
	pk := e.fnPkg(fn)
	if pk == nil {
		return fn.String()
	}
	return pkgShort(pk.Pkg.Path()) + "." + e.funcKey(fn)
}

func (e *Engine) contractFor(fn *ssa.Function) *Contract {
	pk := e.fnPkg(fn)
	if pk == nil {
		return nil
	}
	if con := e.specs.Contracts[pk.Pkg.Path()+"::"+e.funcKey(fn)]; con != nil {
		return con
	}
	return e.specs.Contracts[e.qualKey(fn)]
}

func (e *Engine) pkgOfContract(con *Contract, caller *ssa.Function) *types.Package {
	if con.Pkg != "" {
		if p := e.pkgs[con.Pkg]; p != nil {
			return p.Pkg
		}
	}
	if pk := e.fnPkg(caller); pk != nil {
		return pk.Pkg
	}
	return nil
}

// resolveType resolves the text of a Go type used in a contract.
func (e *Engine) resolveType(pkg *types.Package, text string) types.Type {
	text = strings.TrimSpace(text)
	switch {
	case text == "":
		return tBool
	case strings.HasPrefix(text, "*"):
		return types.NewPointer(e.resolveType(pkg, text[1:]))
	case strings.HasPrefix(text, "[]"):
		return types.NewSlice(e.resolveType(pkg, text[2:]))
	case strings.HasPrefix(text, "map["):
		depth := 0
		for i := 3; i < len(text); i++ {
			switch text[i] {
			case '[':
				depth++
			case ']':
				depth--
				if depth == 0 {
					return types.NewMap(e.resolveType(pkg, text[4:i]), e.resolveType(pkg, text[i+1:]))
				}
			}
		}
	case text == "struct{}":
		return types.NewStruct(nil, nil)
	}
	if obj := types.Universe.Lookup(text); obj != nil {
		if tn, ok := obj.(*types.TypeName); ok {
			return tn.Type()
		}
	}
	if i := strings.Index(text, "."); i >= 0 {
		pn, tn := text[:i], text[i+1:]
		var cands []*ssa.Package
		for _, sp := range e.prog.AllPackages() {
			if sp.Pkg.Name() == pn || sp.Pkg.Path() == pn {
				cands = append(cands, sp)
			}
		}
		sort.Slice(cands, func(i, j int) bool { return cands[i].Pkg.Path() < cands[j].Pkg.Path() })
		for _, sp := range cands {
			if obj, ok := sp.Pkg.Scope().Lookup(tn).(*types.TypeName); ok {
				return obj.Type()
			}
		}
		specFail("unknown type %q", text)
	}
	if pkg != nil {
		if obj, ok := pkg.Scope().Lookup(text).(*types.TypeName); ok {
			return obj.Type()
		}
	}
	for _, p := range []string{gojqPath, cliPath} {
		if sp := e.pkgs[p]; sp != nil {
			if obj, ok := sp.Pkg.Scope().Lookup(text).(*types.TypeName); ok {
				return obj.Type()
			}
		}
	}
	specFail("unknown type %q", text)
	return nil
}

// heapSortByName reconstructs the sort of a heap variable from its name when it is not yet
// declared in the function context (used by modifies clauses).
func (e *Engine) heapSortByName(c *FnCtx, name string) (string, bool) {
	if s, ok := c.heapSort[name]; ok {
		return s, true
	}
	if s, ok := c.knownHeaps[name]; ok {
		return s, true
	}
	if strings.HasPrefix(name, "GH_g_") {
		return "(Array Int Int)", true
	}
	switch name {
	case "BIG":
		return "(Array Int Int)", true
	case "ALLOC":
		return "Int", true
	case "OPAQUE":
		return "Int", true
	case "GH_sorted":
		return "(Array Int Int)", true
	case "GH_owned":
		return "(Array Int Bool)", true
	case "GH_out":
		return "(Array Int Str)", true
	case "HC_bool":
		return "(Array Int Bool)", true
	case "HC_int":
		return "(Array Int Int)", true
	case "HC_string":
		return "(Array Int Str)", true
	case "HC_any", "HC_error":
		return "(Array Int Val)", true
	case "HE_any":
		return "(Array Int (Array Int Val))", true
	case "HE_uint8", "HE_int", "HE_int32":
		return "(Array Int (Array Int Int))", true
	case "HE_string":
		return "(Array Int (Array Int Str))", true
	case "HMD_string_any":
		return "(Array Int (Array Str Bool))", true
	case "HMV_string_any":
		return "(Array Int (Array Str Val))", true
	case "HML_string_any":
		return "(Array Int Int)", true
	}
	if srt, ok := e.ghostHeaps[name]; ok {
		return srt, true
	}
	return "", false
}

func (e *Engine) ownPkgFn(fn *ssa.Function) bool {
	pk := e.fnPkg(fn)
	return pk != nil && e.ownPkg(pk.Pkg.Path())
}

func (e *Engine) tryResolveType(pkg *types.Package, text string) (t types.Type, err error) {
	defer func() {
		if r := recover(); r != nil {
			if se, ok := r.(specErr); ok {
				err = fmt.Errorf("%s", se.msg)
				return
			}
			panic(r)
		}
	}()
	return e.resolveType(pkg, text), nil
}

// relFile: the source file of a function relative to the repository root.
func (e *Engine) relFile(fn *ssa.Function) string {
	f := fn
	for f.Parent() != nil {
		f = f.Parent()
	}
	pos := e.fset.Position(f.Pos())
	if !f.Pos().IsValid() && f.Syntax() != nil {
		pos = e.fset.Position(f.Syntax().Pos())
	}
	name := pos.Filename
	if i := strings.LastIndex(name, "/repo/"); i >= 0 {
		return name[i+6:]
	}
	return strings.TrimPrefix(name, e.repo+"/")
}

// qualKeyShort: "sort.Slice", "maps.Copy" (package name, generic arguments dropped).
func (e *Engine) qualKeyShort(fn *ssa.Function) string {
	pk := e.fnPkg(fn)
	if pk == nil {
		return fn.Name()
	}
	name := fn.Name()
	if i := strings.Index(name, "["); i >= 0 {
		name = name[:i]
	}
	return pk.Pkg.Name() + "." + name
}
