package main

import (
	"fmt"
	"go/token"
	"go/types"

	"golang.org/x/tools/go/ssa"
)

func (c *FnCtx) guard() string {
	if c.extraGuard != "" {
		return and(c.reach[c.curBlock], c.extraGuard)
	}
	return c.reach[c.curBlock]
}

// safety obligation (C08 sweep): recorded only when the sweep is on; always assumed afterwards.
func (c *FnCtx) safety(kind, goal string, pos token.Pos, detail string) {
	if (c.opts != nil && c.opts.noSafety) || (c.con != nil && c.con.Flags["nosafety"]) {
		c.assumeAt(c.guard(), goal)
		return
	}
	props := []string{"C08"}
	if c.opts != nil && c.opts.props != nil {
		props = c.opts.props
	}
	c.oblige(kind, props, c.guard(), goal, pos, nil, detail)
}

func (c *FnCtx) instr(in ssa.Instruction) {
	switch x := in.(type) {
	case *ssa.DebugRef:
	case *ssa.Alloc:
		c.instrAlloc(x)
	case *ssa.BinOp:
		c.setVal(x, c.binop(x))
	case *ssa.UnOp:
		c.instrUnOp(x)
	case *ssa.Call:
		c.instrCall(x)
	case *ssa.ChangeInterface:
		c.setVal(x, c.term(x.X))
	case *ssa.ChangeType:
		c.setVal(x, c.term(x.X))
	case *ssa.Convert:
		c.instrConvert(x)
	case *ssa.MakeInterface:
		if kindOf(x.X.Type()) == kBig {
			// convention of the value model: a *big.Int carried by an interface is never nil
			c.safety("box-nil-big", not(eq(c.term(x.X), "0")), x.Pos(), "nil *big.Int converted to an interface value")
			// publication: from here on the integer is immutable (value model of gojq; writes to
			// pre-existing big integers are excluded by the BIG frame obligations)
			c.assumeAt(c.guard(), eq(app("pubval", c.term(x.X)), sel(c.bigHeap(), c.term(x.X))))
		}
		c.setVal(x, c.box(x.X.Type(), c.term(x.X)))
	case *ssa.TypeAssert:
		c.instrTypeAssert(x)
	case *ssa.Extract:
		tup, ok := c.tuples[x.Tuple]
		if !ok {
			unsupp("extract from unknown tuple %s", x.Tuple.Name())
		}
		if tup[x.Index] == "" {
			unsupp("extract of unsupported component")
		}
		c.setVal(x, tup[x.Index])
	case *ssa.Field:
		si := c.sorts.structInfo(x.X.Type())
		c.setVal(x, app(si.fields[x.Field], c.term(x.X)))
	case *ssa.FieldAddr:
		c.instrFieldAddr(x)
	case *ssa.IndexAddr:
		c.instrIndexAddr(x)
	case *ssa.Index:
		c.instrIndex(x)
	case *ssa.Lookup:
		c.instrLookup(x)
	case *ssa.Slice:
		c.instrSlice(x)
	case *ssa.Store:
		c.instrStore(x)
	case *ssa.MakeSlice:
		c.instrMakeSlice(x)
	case *ssa.MakeMap:
		c.instrMakeMap(x)
	case *ssa.MapUpdate:
		c.instrMapUpdate(x)
	case *ssa.MakeClosure:
		n := c.fresh("clo")
		c.declare(n, "Int")
		c.vals[x] = n
		c.closures[x] = x
		c.checkCaptures(x)
		// captured cells are reachable from the closure: nothing to do in the model, the cells
		// live in HC heaps.
	case *ssa.Range:
		c.instrRange(x)
	case *ssa.Next:
		c.instrNext(x)
	case *ssa.If:
		cond := c.term(x.Cond)
		c.setEdges(c.curBlock, cond, not(cond))
	case *ssa.Jump:
		c.setEdges(c.curBlock)
	case *ssa.Return:
		c.instrReturn(x)
	case *ssa.Panic:
		c.instrPanic(x)
	case *ssa.Defer:
		c.defers = append(c.defers, x)
		// path-sensitive: the deferred call runs only if this instruction was executed
		flag := fmt.Sprintf("L_defer%d", len(c.defers))
		c.heapDecl(flag, "Bool")
		c.heapGet(flag, "Bool")
		c.heapSet(flag, "Bool", "true")
		c.deferFlags = append(c.deferFlags, flag)
	case *ssa.RunDefers:
		c.instrRunDefers(x)
	case *ssa.Select:
		c.instrSelect(x)
	case *ssa.SliceToArrayPointer, *ssa.MultiConvert, *ssa.Go, *ssa.Send, *ssa.MakeChan:
		unsupp("instruction %T", in)
	default:
		unsupp("instruction %T", in)
	}
}

func (c *FnCtx) instrAlloc(x *ssa.Alloc) {
	et := x.Type().(*types.Pointer).Elem()
	if at, ok := types.Unalias(et).Underlying().(*types.Array); ok {
		// arrays live in the element heap; the pointer is a slice-shaped descriptor
		hn, hs := c.elemHeap(at.Elem())
		r := c.newRef()
		h := c.heapGet(hn, hs)
		c.heapSet(hn, hs, sto(h, r, c.zero(et)))
		n := intLit(at.Len())
		c.vals[x] = app("mk-slice", r, "0", n, n)
		return
	}
	if name, ok := c.locals[x]; ok {
		srt := c.sorts.sortOf(et)
		c.heapDecl(name, srt)
		c.heapGet(name, srt)
		c.heapSet(name, srt, c.zero(et))
		a := &addr{kind: aLocal, heap: name, ty: et}
		if _, isS := types.Unalias(et).Underlying().(*types.Struct); isS {
			a.sinfo = c.sorts.structInfo(et)
		}
		c.addrs[x] = a
		return
	}
	// heap object
	r := c.newRef()
	c.vals[x] = r
	if kindOf(x.Type()) == kBig {
		c.bigSet(r, "0")
		return
	}
	if n, ok := types.Unalias(et).(*types.Named); ok && n.Obj().Pkg() != nil && !c.eng.ownPkg(n.Obj().Pkg().Path()) {
		if _, isStruct := n.Underlying().(*types.Struct); isStruct {
			if namedIs(et, "strings", "Builder") || namedIs(et, "bytes", "Buffer") {
				// the zero value of a buffer is an empty buffer: nothing written yet
				h := c.heapGet("GH_out", "(Array Int Str)")
				c.heapSet("GH_out", "(Array Int Str)", sto(h, r, "str_empty"))
			}
			return // foreign struct: opaque object
		}
	}
	a := c.addrOfPtr(r, et)
	c.store(a, c.zero(et))
}

func (c *FnCtx) bigHeap() string { return c.heapGet("BIG", "(Array Int Int)") }
func (c *FnCtx) bigSet(r, v string) {
	h := c.bigHeap()
	c.heapSet("BIG", "(Array Int Int)", sto(h, r, v))
}

func isUnsigned(t types.Type) bool {
	b, ok := types.Unalias(t).Underlying().(*types.Basic)
	return ok && b.Info()&types.IsUnsigned != 0
}

func basicInfo(t types.Type) types.BasicInfo {
	b, ok := types.Unalias(t).Underlying().(*types.Basic)
	if !ok {
		return 0
	}
	return b.Info()
}

func constInt(v ssa.Value) (int64, bool) {
	k, ok := v.(*ssa.Const)
	if !ok || k.Value == nil {
		return 0, false
	}
	if basicInfo(k.Type())&types.IsInteger == 0 {
		return 0, false
	}
	return k.Int64(), true
}

func (c *FnCtx) binop(x *ssa.BinOp) string {
	t := x.X.Type()
	info := basicInfo(t)
	a, b := c.term(x.X), c.term(x.Y)
	switch {
	case info&types.IsInteger != 0:
		w := wrapFn(x.Type())
		switch x.Op {
		case token.ADD:
			if w == "wrap64" {
				return app("wrapadd64", add(a, b))
			}
			return app(w, add(a, b))
		case token.SUB:
			if w == "wrap64" {
				return app("wrapadd64", sub(a, b))
			}
			return app(w, sub(a, b))
		case token.MUL:
			return app(w, app("*", a, b))
		case token.QUO:
			c.safety("div-zero", not(eq(b, "0")), x.Pos(), "integer division by zero")
			return app(w, app("tdiv", a, b))
		case token.REM:
			c.safety("div-zero", not(eq(b, "0")), x.Pos(), "integer modulo by zero")
			return app("tmod", a, b)
		case token.AND:
			// x & (1 << n): test of bit n (for 0 <= x and 0 <= n <= 62)
			for _, pair := range [][2]ssa.Value{{x.X, x.Y}, {x.Y, x.X}} {
				if sh, ok := pair[1].(*ssa.BinOp); ok && sh.Op == token.SHL {
					if one, ok := constInt(sh.X); ok && one == 1 {
						xv, n := c.term(pair[0]), c.term(sh.Y)
						c.safety("bit-test", and(le("0", xv), le("0", n), le(n, "62")), x.Pos(), "bit test x & (1 << n) outside 0 <= x, 0 <= n <= 62")
						return app("*", app("mod", app("div", xv, app("pow2", n)), "2"), app("pow2", n))
					}
				}
			}
			if k, ok := constInt(x.Y); ok && k >= 0 && (k+1)&k == 0 && (isUnsigned(t) || true) {
				// x & (2^n - 1) == x mod 2^n (two's complement, mathematical mod)
				return app("mod", a, intLit(k+1))
			}
			n := c.fresh("band")
			c.declare(n, "Int")
			c.assume(eq(n, app("bits_and", a, b)))
			c.assumeValid(n, x.Type())
			if isUnsigned(t) {
				c.assume(and(le(n, a), le(n, b)))
			}
			return n
		case token.OR, token.XOR, token.AND_NOT:
			f := map[token.Token]string{token.OR: "bits_or", token.XOR: "bits_xor", token.AND_NOT: "bits_andnot"}[x.Op]
			if f == "bits_andnot" {
				c.declareFun(f, []string{"Int", "Int"}, "Int")
			}
			n := c.fresh("bop")
			c.declare(n, "Int")
			c.assume(eq(n, app(f, a, b)))
			c.assumeValid(n, x.Type())
			return n
		case token.SHL:
			if k, ok := constInt(x.Y); ok && k >= 0 && k < 63 {
				return app(w, app("*", a, intLit(1<<uint(k))))
			}
			if ka, ok := constInt(x.X); ok && ka == 1 {
				// 1 << n: pow2 (defined for 0..63; larger counts shift everything out)
				c.safety("shift", le("0", b), x.Pos(), "negative shift count")
				return app(w, app("pow2", b))
			}
			c.safety("shift", le("0", b), x.Pos(), "negative shift count")
			n := c.fresh("shl")
			c.declare(n, "Int")
			c.assume(eq(n, app("bits_shl", a, b)))
			c.assumeValid(n, x.Type())
			return n
		case token.SHR:
			if k, ok := constInt(x.Y); ok && k >= 0 && k < 63 {
				return app("div", a, intLit(1<<uint(k)))
			}
			c.safety("shift", le("0", b), x.Pos(), "negative shift count")
			n := c.fresh("shr")
			c.declare(n, "Int")
			c.assume(eq(n, app("bits_shr", a, b)))
			c.assumeValid(n, x.Type())
			return n
		case token.EQL:
			return eq(a, b)
		case token.NEQ:
			return not(eq(a, b))
		case token.LSS:
			return lt(a, b)
		case token.LEQ:
			return le(a, b)
		case token.GTR:
			return lt(b, a)
		case token.GEQ:
			return le(b, a)
		}
	case info&types.IsFloat != 0:
		switch x.Op {
		case token.ADD:
			return app("f64_add", a, b)
		case token.SUB:
			return app("f64_sub", a, b)
		case token.MUL:
			return app("f64_mul", a, b)
		case token.QUO:
			return app("f64_div", a, b)
		case token.EQL:
			return app("f64_eq", a, b)
		case token.NEQ:
			return not(app("f64_eq", a, b))
		case token.LSS:
			return app("f64_lt", a, b)
		case token.LEQ:
			return app("f64_le", a, b)
		case token.GTR:
			return app("f64_lt", b, a)
		case token.GEQ:
			return app("f64_le", b, a)
		}
	case info&types.IsString != 0:
		switch x.Op {
		case token.ADD:
			return app("scat", a, b)
		case token.EQL:
			return eq(a, b)
		case token.NEQ:
			return not(eq(a, b))
		case token.LSS:
			c.usesStrLt = true
			return app("str_lt", a, b)
		case token.GTR:
			c.usesStrLt = true
			return app("str_lt", b, a)
		case token.LEQ:
			c.usesStrLt = true
			return not(app("str_lt", b, a))
		case token.GEQ:
			c.usesStrLt = true
			return not(app("str_lt", a, b))
		}
	case info&types.IsBoolean != 0:
		switch x.Op {
		case token.EQL:
			return eq(a, b)
		case token.NEQ:
			return not(eq(a, b))
		case token.AND:
			return and(a, b)
		case token.OR:
			return or(a, b)
		}
	default:
		// pointers, interfaces, maps, channels, funcs, structs, arrays: identity / structural equality
		switch x.Op {
		case token.EQL, token.NEQ:
			ta, tb := a, b
			// mixed interface/concrete comparison
			if isInterface(x.X.Type()) && !isInterface(x.Y.Type()) {
				tb = c.box(x.Y.Type(), b)
			} else if !isInterface(x.X.Type()) && isInterface(x.Y.Type()) {
				ta = c.box(x.X.Type(), a)
			}
			if _, isSl := types.Unalias(x.X.Type()).Underlying().(*types.Slice); isSl {
				// slice == nil
				if isNilConst(x.Y) {
					ta, tb = app("s-arr", a), "0"
					// a non-nil empty slice also has arr 0 in this model only when nil; empty
					// non-nil slices get a fresh arr, so arr==0 <=> nil
				} else if isNilConst(x.X) {
					ta, tb = app("s-arr", b), "0"
				}
			}
			if x.Op == token.EQL {
				return eq(ta, tb)
			}
			return not(eq(ta, tb))
		}
	}
	unsupp("binop %s on %s", x.Op, t)
	return ""
}

func isNilConst(v ssa.Value) bool {
	k, ok := v.(*ssa.Const)
	return ok && k.Value == nil
}

func (c *FnCtx) pow2Facts() {
	if true {
		return // pow2 is defined in the prelude (table for 0..63, 0 elsewhere)
	}
	if c.declSet["pow2facts"] {
		return
	}
	c.declSet["pow2facts"] = true
	p := int64(1)
	for i := 0; i < 63; i++ {
		c.ctx0(eq(app("pow2", intLit(int64(i))), intLit(p)))
		p *= 2
	}
	c.ctx0("(= (pow2 63) 9223372036854775808)")
	c.ctx0("(forall ((n Int)) (! (=> (> n 63) (= (mod (pow2 n) 18446744073709551616) 0)) :pattern ((pow2 n))))")
}

func (c *FnCtx) instrUnOp(x *ssa.UnOp) {
	switch x.Op {
	case token.MUL: // load
		a := c.addrOf(x.X)
		c.nilCheck(a, x.Pos())
		v := c.load(a)
		c.setVal(x, v)
		c.assumeValid(c.vals[x], x.Type())
		if c.jsonMode {
			c.jsonLoad(c.vals[x], x.Type(), a)
		}
	case token.SUB:
		a := c.term(x.X)
		if basicInfo(x.Type())&types.IsFloat != 0 {
			c.setVal(x, app("f64_neg", a))
		} else {
			c.setVal(x, app(wrapFn(x.Type()), app("-", a)))
		}
	case token.NOT:
		c.setVal(x, not(c.term(x.X)))
	case token.XOR:
		a := c.term(x.X)
		if isUnsigned(x.Type()) {
			_, hi, _ := intRange(x.Type())
			c.setVal(x, sub(hi, a))
		} else {
			c.setVal(x, sub(app("-", a), "1"))
		}
	case token.ARROW:
		unsupp("channel receive")
	default:
		unsupp("unop %s", x.Op)
	}
}

func (c *FnCtx) nilCheck(a *addr, pos token.Pos) {
	r := a.root()
	switch r.kind {
	case aField, aCell:
		c.safety("nil-deref", not(eq(r.base, "0")), pos, "nil pointer dereference")
	}
}

func (c *FnCtx) instrStore(x *ssa.Store) {
	a := c.addrOf(x.Addr)
	c.nilCheck(a, x.Pos())
	v := c.term(x.Val)
	c.checkWrite(a, v, x.Pos())
	c.store(a, v)
}

func (c *FnCtx) instrFieldAddr(x *ssa.FieldAddr) {
	base := c.addrOf(x.X)
	// *big.Int and other foreign structs are opaque
	c.addrs[x] = c.fieldAddr(base, x.Field)
}

func (c *FnCtx) instrIndexAddr(x *ssa.IndexAddr) {
	i := c.term(x.Index)
	switch tt := types.Unalias(x.X.Type()).Underlying().(type) {
	case *types.Slice:
		s := c.term(x.X)
		c.safety("index", and(le("0", i), lt(i, app("s-len", s))), x.Pos(), "slice index out of range")
		hn, hs := c.elemHeap(tt.Elem())
		c.heapDecl(hn, hs)
		c.addrs[x] = &addr{kind: aElem, heap: hn, base: app("s-arr", s), idx: add(app("s-off", s), i), ty: tt.Elem()}
	case *types.Pointer:
		at := types.Unalias(tt.Elem()).Underlying().(*types.Array)
		n := intLit(at.Len())
		c.safety("index", and(le("0", i), lt(i, n)), x.Pos(), "array index out of range")
		if pa, ok := c.addrs[x.X]; ok {
			c.addrs[x] = &addr{kind: aArrIdx, parent: pa, idx: i, ty: at.Elem()}
			return
		}
		s := c.term(x.X) // slice-shaped descriptor of an allocated array
		hn, hs := c.elemHeap(at.Elem())
		c.heapDecl(hn, hs)
		c.addrs[x] = &addr{kind: aElem, heap: hn, base: app("s-arr", s), idx: add(app("s-off", s), i), ty: at.Elem()}
	default:
		unsupp("IndexAddr on %s", x.X.Type())
	}
}

func (c *FnCtx) instrIndex(x *ssa.Index) {
	i := c.term(x.Index)
	switch tt := types.Unalias(x.X.Type()).Underlying().(type) {
	case *types.Basic: // string
		s := c.term(x.X)
		c.safety("index", and(le("0", i), lt(i, app("slen", s))), x.Pos(), "string index out of range")
		c.setVal(x, app("sat", s, i))
	case *types.Array:
		c.safety("index", and(le("0", i), lt(i, intLit(tt.Len()))), x.Pos(), "array index out of range")
		c.setVal(x, sel(c.term(x.X), i))
		c.assumeValid(c.vals[x], x.Type())
	default:
		unsupp("Index on %s", x.X.Type())
	}
}

func (c *FnCtx) mapHeaps(m *types.Map) (dom, val, ln string) {
	ks, vs := c.sorts.sortOf(m.Key()), c.sorts.sortOf(m.Elem())
	dom, val, ln = heapMapDom(m), heapMapVal(m), heapMapLen(m)
	c.heapDecl(dom, "(Array Int (Array "+ks+" Bool))")
	c.heapDecl(val, "(Array Int (Array "+ks+" "+vs+"))")
	c.heapDecl(ln, "(Array Int Int)")
	return
}

func (c *FnCtx) instrLookup(x *ssa.Lookup) {
	switch tt := types.Unalias(x.X.Type()).Underlying().(type) {
	case *types.Map:
		m := c.term(x.X)
		k := c.term(x.Index)
		dom, val, _ := c.mapHeaps(tt)
		d := c.heapGet(dom, c.heapSort[dom])
		v := c.heapGet(val, c.heapSort[val])
		// reading a nil map is allowed: nil map ref 0 has an empty domain (assumed invariant)
		present := and(not(eq(m, "0")), sel2(d, m, k))
		value := ite(present, sel2(v, m, k), c.zero(tt.Elem()))
		if x.CommaOk {
			vn := c.fresh("lk")
			c.declare(vn, c.sorts.sortOf(tt.Elem()))
			c.assume(eq(vn, value))
			c.assumeValid(vn, tt.Elem())
			if c.jsonMode {
				c.jsonLoadMap(vn, tt)
			}
			c.tuples[x] = []string{vn, present}
			return
		}
		c.setVal(x, value)
		c.assumeValid(c.vals[x], tt.Elem())
		if c.jsonMode {
			c.jsonLoadMap(c.vals[x], tt)
		}
	case *types.Basic:
		s := c.term(x.X)
		i := c.term(x.Index)
		c.safety("index", and(le("0", i), lt(i, app("slen", s))), x.Pos(), "string index out of range")
		c.setVal(x, app("sat", s, i))
	default:
		unsupp("Lookup on %s", x.X.Type())
	}
}

func (c *FnCtx) instrMapUpdate(x *ssa.MapUpdate) {
	tt := types.Unalias(x.Map.Type()).Underlying().(*types.Map)
	m, k, v := c.term(x.Map), c.term(x.Key), c.term(x.Value)
	c.safety("nil-map", not(eq(m, "0")), x.Pos(), "assignment to entry in nil map")
	c.checkMapWrite(tt, m, k, v, x.Pos())
	c.mapStore(tt, m, k, v)
}

func (c *FnCtx) mapStore(tt *types.Map, m, k, v string) {
	dom, val, ln := c.mapHeaps(tt)
	d := c.heapGet(dom, c.heapSort[dom])
	vv := c.heapGet(val, c.heapSort[val])
	l := c.heapGet(ln, c.heapSort[ln])
	was := sel2(d, m, k)
	c.heapSet(ln, c.heapSort[ln], sto(l, m, ite(was, sel(l, m), add(sel(l, m), "1"))))
	c.heapSet(dom, c.heapSort[dom], sto2(d, m, k, "true"))
	c.heapSet(val, c.heapSort[val], sto2(vv, m, k, v))
}

func (c *FnCtx) mapDelete(tt *types.Map, m, k string) {
	dom, _, ln := c.mapHeaps(tt)
	d := c.heapGet(dom, c.heapSort[dom])
	l := c.heapGet(ln, c.heapSort[ln])
	was := and(not(eq(m, "0")), sel2(d, m, k))
	c.heapSet(ln, c.heapSort[ln], ite(was, sto(l, m, sub(sel(l, m), "1")), l))
	c.heapSet(dom, c.heapSort[dom], ite(was, sto2(d, m, k, "false"), d))
}

func (c *FnCtx) instrMakeMap(x *ssa.MakeMap) {
	tt := types.Unalias(x.Type()).Underlying().(*types.Map)
	r := c.newRef()
	dom, _, ln := c.mapHeaps(tt)
	d := c.heapGet(dom, c.heapSort[dom])
	l := c.heapGet(ln, c.heapSort[ln])
	ks := c.sorts.sortOf(tt.Key())
	c.heapSet(dom, c.heapSort[dom], sto(d, r, "((as const (Array "+ks+" Bool)) false)"))
	c.heapSet(ln, c.heapSort[ln], sto(l, r, "0"))
	c.setVal(x, r)
}

func (c *FnCtx) instrMakeSlice(x *ssa.MakeSlice) {
	tt := types.Unalias(x.Type()).Underlying().(*types.Slice)
	ln, cp := c.term(x.Len), c.term(x.Cap)
	c.safety("make", and(le("0", ln), le(ln, cp)), x.Pos(), "makeslice: len out of range")
	c.assumeAt(c.guard(), lt(cp, maxLenS)) // larger allocations fail with out-of-memory (outside the claim)
	c.setVal(x, c.newSlice(tt.Elem(), ln, cp, true))
}

// newSlice allocates a fresh backing array (zeroed if zeroed) and returns the slice term.
func (c *FnCtx) newSlice(elem types.Type, ln, cp string, zeroed bool) string {
	hn, hs := c.elemHeap(elem)
	r := c.newRef()
	h := c.heapGet(hn, hs)
	if zeroed {
		c.heapSet(hn, hs, sto(h, r, "((as const (Array Int "+c.sorts.sortOf(elem)+")) "+c.zero(elem)+")"))
	} else {
		c.heapGet(hn, hs)
	}
	return app("mk-slice", r, "0", ln, cp)
}

func (c *FnCtx) instrSlice(x *ssa.Slice) {
	var lo, hi, mx string
	if x.Low != nil {
		lo = c.term(x.Low)
	} else {
		lo = "0"
	}
	switch tt := types.Unalias(x.X.Type()).Underlying().(type) {
	case *types.Basic: // string
		s := c.term(x.X)
		if x.High != nil {
			hi = c.term(x.High)
		} else {
			hi = app("slen", s)
		}
		c.safety("slice", and(le("0", lo), le(lo, hi), le(hi, app("slen", s))), x.Pos(), "string slice bounds out of range")
		c.setVal(x, app("ssub", s, lo, hi))
	case *types.Slice, *types.Pointer:
		if pa, ok := c.addrs[x.X]; ok {
			if _, hasTerm := c.vals[x.X]; !hasTerm {
				// slicing an array that lives inside an object (e.g. env.args[:n]): the slice aliases the
				// field. Model: a fresh array holding a copy; the field itself becomes volatile (every
				// later read of it yields an arbitrary value), so no stale value is ever used.
				at := types.Unalias(types.Unalias(x.X.Type()).Underlying().(*types.Pointer).Elem()).Underlying().(*types.Array)
				hn, hs := c.elemHeap(at.Elem())
				r := c.newRef()
				h := c.heapGet(hn, hs)
				c.heapSet(hn, hs, sto(h, r, c.load(pa)))
				n := intLit(at.Len())
				c.vals[x.X] = app("mk-slice", r, "0", n, n)
				if root := pa.root(); (root.kind == aField || root.kind == aCell) && root.base != "" {
					// only the object that holds the sliced array becomes volatile
					c.volatileRefs[root.heap] = append(c.volatileRefs[root.heap], root.base)
				} else {
					c.volatile[pa.rootHeap()] = true
				}
			}
		}
		s := c.term(x.X)
		_ = tt
		if x.High != nil {
			hi = c.term(x.High)
		} else {
			hi = app("s-len", s)
		}
		if x.Max != nil {
			mx = c.term(x.Max)
		} else {
			mx = app("s-cap", s)
		}
		c.safety("slice", and(le("0", lo), le(lo, hi), le(hi, mx), le(mx, app("s-cap", s))), x.Pos(), "slice bounds out of range")
		// Go keeps the array pointer unless the resulting capacity is zero-and-nil; a nil slice stays nil
		c.setVal(x, app("mk-slice", app("s-arr", s), ite(eq(app("s-arr", s), "0"), "0", add(app("s-off", s), lo)), sub(hi, lo), sub(mx, lo)))
	default:
		unsupp("Slice on %s", x.X.Type())
	}
}

func (c *FnCtx) instrTypeAssert(x *ssa.TypeAssert) {
	v := c.term(x.X)
	is := c.isType(x.AssertedType, v)
	if x.CommaOk {
		ok := c.fresh("ok")
		c.declare(ok, "Bool")
		c.assume(eq(ok, is))
		var val string
		if isInterface(x.AssertedType) {
			val = ite(ok, v, "VNil")
		} else {
			val = ite(ok, c.unbox(x.AssertedType, v), c.zero(x.AssertedType))
		}
		vn := c.fresh("ta")
		c.declare(vn, c.sorts.sortOf(x.AssertedType))
		c.assume(eq(vn, val))
		c.assumeAt(ok, c.validity(vn, x.AssertedType, 0))
		if kindOf(x.AssertedType) == kBig {
			c.assumeAt(and(c.guard(), ok), eq(sel(c.bigHeap(), vn), app("pubval", vn)))
		}
		c.tuples[x] = []string{vn, ok}
		return
	}
	c.safety("type-assert", is, x.Pos(), fmt.Sprintf("interface conversion to %s", x.AssertedType))
	c.setVal(x, c.unbox(x.AssertedType, v))
	c.assumeValid(c.vals[x], x.AssertedType)
	if kindOf(x.AssertedType) == kBig {
		c.assumeAt(c.guard(), eq(sel(c.bigHeap(), c.vals[x]), app("pubval", c.vals[x])))
	}
}

func (c *FnCtx) instrConvert(x *ssa.Convert) {
	from, to := x.X.Type(), x.Type()
	fi, ti := basicInfo(from), basicInfo(to)
	a := c.term(x.X)
	switch {
	case fi&types.IsInteger != 0 && ti&types.IsInteger != 0:
		flo, fhi, _ := intRange(from)
		tlo, thi, _ := intRange(to)
		if flo == tlo && fhi == thi {
			c.setVal(x, a)
			return
		}
		c.setVal(x, app(wrapFn(to), a))
	case fi&types.IsInteger != 0 && ti&types.IsFloat != 0:
		c.setVal(x, app("f64_of_int", a))
	case fi&types.IsFloat != 0 && ti&types.IsInteger != 0:
		c.setVal(x, app("f64_to_int_"+wrapFn(to), a))
		c.declareFun("f64_to_int_"+wrapFn(to), []string{"F64"}, "Int")
		c.assumeValid(c.vals[x], to)
	case fi&types.IsFloat != 0 && ti&types.IsFloat != 0:
		c.setVal(x, a)
	case fi&types.IsString != 0 && ti&types.IsString != 0:
		c.setVal(x, a)
	case fi&types.IsInteger != 0 && ti&types.IsString != 0:
		c.declareFun("str_of_rune", []string{"Int"}, "Str")
		c.setVal(x, app("str_of_rune", a))
		n := c.vals[x]
		c.assume(and(le("1", app("slen", n)), le(app("slen", n), "4")))
		c.assume(implies(and(le("0", a), lt(a, "128")), and(eq(app("slen", n), "1"), eq(app("sat", n, "0"), a))))
	case ti&types.IsString != 0:
		// []byte or []rune -> string
		st, ok := types.Unalias(from).Underlying().(*types.Slice)
		if !ok {
			unsupp("convert %s to string", from)
		}
		hn, hs := c.elemHeap(st.Elem())
		h := c.heapGet(hn, hs)
		if basicInfo(st.Elem())&types.IsInteger != 0 && wrapFn(st.Elem()) == "wrapu8" {
			c.setVal(x, c.strOfBytes(sel(h, app("s-arr", a)), app("s-off", a), app("s-len", a)))
		} else {
			c.declareFun("str_of_runes", []string{"(Array Int Int)", "Int", "Int"}, "Str")
			c.setVal(x, app("str_of_runes", sel(h, app("s-arr", a)), app("s-off", a), app("s-len", a)))
		}
	case fi&types.IsString != 0:
		st, ok := types.Unalias(to).Underlying().(*types.Slice)
		if !ok {
			unsupp("convert string to %s", to)
		}
		hn, hs := c.elemHeap(st.Elem())
		if wrapFn(st.Elem()) == "wrapu8" {
			ln := app("slen", a)
			cp := c.fresh("cap")
			c.declare(cp, "Int")
			c.assume(and(le(ln, cp), lt(cp, maxLenS)))
			s := c.newSlice(st.Elem(), ln, cp, false)
			c.heapHavoc(hn)
			h2 := c.cur[hn]
			c.setVal(x, s)
			_ = hs
			c.frameExcept(hn, app("s-arr", c.vals[x]))
			k := c.fresh("k")
			c.assume(forall([][2]string{{k, "Int"}}, implies(and(le("0", k), lt(k, ln)), eq(sel2(h2, app("s-arr", c.vals[x]), k), app("sat", a, k))), sel2(h2, app("s-arr", c.vals[x]), k)))
		} else {
			// []rune(s)
			ln := c.fresh("rlen")
			c.declare(ln, "Int")
			c.assume(and(eq(ln, app("rcount", a)), le("0", ln), le(ln, app("slen", a))))
			c.assume(implies(lt("0", app("slen", a)), lt("0", ln)))
			cp := c.fresh("cap")
			c.declare(cp, "Int")
			c.assume(and(le(ln, cp), lt(cp, maxLenS)))
			s := c.newSlice(st.Elem(), ln, cp, false)
			c.heapHavoc(hn)
			c.setVal(x, s)
			c.frameExcept(hn, app("s-arr", c.vals[x]))
			h2 := c.cur[hn]
			k := c.fresh("k")
			c.assume(forall([][2]string{{k, "Int"}}, implies(and(le("0", k), lt(k, ln)), eq(sel2(h2, app("s-arr", c.vals[x]), k), app("rdecode", a, app("ridx", a, k)))), sel2(h2, app("s-arr", c.vals[x]), k)))
		}
	default:
		if _, ok := types.Unalias(to).Underlying().(*types.Pointer); ok {
			c.setVal(x, a) // unsafe.Pointer conversions: identity on refs
			return
		}
		if b, ok := types.Unalias(from).Underlying().(*types.Basic); ok && b.Kind() == types.UnsafePointer {
			c.setVal(x, a)
			return
		}
		unsupp("convert %s -> %s", from, to)
	}
}

// frameExcept: the heap hn was havocked; every array other than `except` that existed before is
// unchanged (used for allocation of initialised arrays).
func (c *FnCtx) frameExcept(hn, except string) {
	// the previous version is the one before the havoc: find it from the assumption order
	// (the caller guarantees prev was captured in c.prevHeap)
	prev := c.prevHeap[hn]
	if prev == "" {
		return
	}
	r := c.fresh("r")
	c.assume(forall([][2]string{{r, "Int"}}, implies(not(eq(r, except)), eq(sel(c.cur[hn], r), sel(prev, r))), sel(c.cur[hn], r)))
}

func (c *FnCtx) instrRange(x *ssa.Range) {
	it := &iterInfo{x: c.term(x.X), xty: x.X.Type()}
	switch types.Unalias(x.X.Type()).Underlying().(type) {
	case *types.Basic:
		it.isString = true
		it.posVar = "IT_" + sanitize(x.Name())
		c.heapDecl(it.posVar, "Int")
		c.heapGet(it.posVar, "Int")
		c.heapSet(it.posVar, "Int", "0")
		it.cntVar = "IT_" + sanitize(x.Name()) + "_cnt"
		c.heapDecl(it.cntVar, "Int")
		c.heapGet(it.cntVar, "Int")
		c.heapSet(it.cntVar, "Int", "0")
	case *types.Map:
		it.isMap = true
		// hidden count of keys produced so far
		it.posVar = "IT_" + sanitize(x.Name()) + "_cnt"
		c.heapDecl(it.posVar, "Int")
		c.heapGet(it.posVar, "Int")
		c.heapSet(it.posVar, "Int", "0")
		it.stable = !c.mapWrittenInLoopOf(x)
	default:
		unsupp("range over %s", x.X.Type())
	}
	c.iters[x] = it
}

func (c *FnCtx) instrNext(x *ssa.Next) {
	it := c.iters[x.Iter]
	if it == nil {
		unsupp("Next on unknown iterator")
	}
	if it.isString {
		pos := c.heapGet(it.posVar, "Int")
		cnt := c.heapGet(it.cntVar, "Int")
		s := it.x
		ok := c.fresh("ok")
		c.declare(ok, "Bool")
		c.assume(eq(ok, lt(pos, app("slen", s))))
		// semantic model of range-over-string: the hidden position is the cnt-th decode boundary
		c.assume(and(le("0", cnt), le(cnt, app("rcount", s)), eq(pos, app("ridx", s, cnt)), eq(ok, lt(cnt, app("rcount", s)))))
		w := app("rwidth", s, pos)
		c.heapSet(it.posVar, "Int", ite(ok, add(pos, w), pos))
		c.heapSet(it.cntVar, "Int", ite(ok, add(cnt, "1"), cnt))
		r := c.fresh("rune")
		c.declare(r, "Int")
		c.assume(eq(r, app("rdecode", s, pos)))
		idx := c.fresh("idx")
		c.declare(idx, "Int")
		c.assume(eq(idx, pos))
		// engine-maintained invariant of the hidden iterator position
		c.assume(and(le("0", pos), le(pos, app("slen", s))))
		c.tuples[x] = []string{ok, idx, r}
		return
	}
	tt := types.Unalias(it.xty).Underlying().(*types.Map)
	dom, val, _ := c.mapHeaps(tt)
	d := c.heapGet(dom, c.heapSort[dom])
	v := c.heapGet(val, c.heapSort[val])
	ok := c.fresh("ok")
	c.declare(ok, "Bool")
	k := c.fresh("key")
	c.declare(k, c.sorts.sortOf(tt.Key()))
	c.assume(implies(ok, and(not(eq(it.x, "0")), sel2(d, it.x, k))))
	if it.stable {
		// a map that is not written while it is ranged over yields exactly len(m) keys
		_, _, lnH := c.mapHeaps(tt)
		l := c.heapGet(lnH, c.heapSort[lnH])
		n := ite(eq(it.x, "0"), "0", sel(l, it.x))
		cnt := c.heapGet(it.posVar, "Int")
		c.assume(and(le("0", cnt), le(cnt, n)))
		c.assume(eq(ok, lt(cnt, n)))
		c.heapSet(it.posVar, "Int", ite(ok, add(cnt, "1"), cnt))
	}
	vv := c.fresh("mval")
	c.declare(vv, c.sorts.sortOf(tt.Elem()))
	c.assume(eq(vv, sel2(v, it.x, k)))
	c.assumeValid(vv, tt.Elem())
	c.assumeValid(k, tt.Key())
	if c.jsonMode {
		c.jsonLoadMap(vv, tt)
	}
	c.tuples[x] = []string{ok, k, vv}
}

func (c *FnCtx) instrSelect(x *ssa.Select) {
	if x.Blocking {
		unsupp("blocking select")
	}
	idx := c.fresh("sel")
	c.declare(idx, "Int")
	c.assume(and(le("(- 1)", idx), lt(idx, intLit(int64(len(x.States))))))
	ok := c.fresh("selok")
	c.declare(ok, "Bool")
	tup := []string{idx, ok}
	for _, st := range x.States {
		if st.Dir == types.RecvOnly {
			et := types.Unalias(st.Chan.Type()).Underlying().(*types.Chan).Elem()
			r := c.fresh("recv")
			c.declare(r, c.sorts.sortOf(et))
			tup = append(tup, r)
		}
	}
	c.tuples[x] = tup
}

func (c *FnCtx) instrPanic(x *ssa.Panic) {
	if c.con != nil && c.con.Panics {
		return
	}
	if (c.opts != nil && c.opts.noSafety) || (c.con != nil && c.con.Flags["nosafety"]) {
		return
	}
	props := []string{"C08"}
	if c.opts != nil && c.opts.props != nil {
		props = c.opts.props
	}
	c.oblige("panic", props, c.guard(), "false", x.Pos(), nil, "explicit panic reachable")
}

func (c *FnCtx) instrRunDefers(x *ssa.RunDefers) {
	for i := len(c.defers) - 1; i >= 0; i-- {
		d := c.defers[i]
		f := c.heapGet(c.deferFlags[i], "Bool")
		if f == c.entry[c.deferFlags[i]] {
			// never set on any path reaching here: the entry value of the flag is false
			continue
		}
		before := c.cur.clone()
		saved := c.extraGuard
		c.extraGuard = and(saved, f)
		c.callCommon(&d.Call, nil, d.Pos())
		c.extraGuard = saved
		for _, h := range c.heapOrder {
			cur, ok := c.cur[h]
			if !ok {
				continue
			}
			b, ok2 := before[h]
			if !ok2 {
				b = c.entry[h]
			}
			if cur != b {
				c.heapSet(h, c.heapSort[h], ite(f, cur, b))
			}
		}
	}
}

// mapWrittenInLoopOf: does any loop containing a Next of this range write maps of its type?
func (c *FnCtx) mapWrittenInLoopOf(r *ssa.Range) bool {
	tt := types.Unalias(r.X.Type()).Underlying().(*types.Map)
	dom := heapMapDom(tt)
	refs := r.Referrers()
	if refs == nil {
		return true
	}
	for _, ref := range *refs {
		nx, ok := ref.(*ssa.Next)
		if !ok {
			continue
		}
		for _, li := range c.loopList {
			if li.blocks[nx.Block()] && (li.writes[dom] || li.writes["*"]) {
				return true
			}
		}
	}
	return false
}

// checkCaptures: "closure K captures E" clauses of the enclosing function's contract.
func (c *FnCtx) checkCaptures(x *ssa.MakeClosure) {
	if c.con == nil {
		return
	}
	c.nclosures++
	callee := x.Fn.(*ssa.Function)
	for _, cl := range c.con.Clauses {
		if cl.Kind != "captures" || cl.Loop != c.nclosures {
			continue
		}
		env := c.conEnv()
		env.pkg = c.pkgTypes()
		env.heap = c.cur
		env.old = c.entry
		env.vars = map[string]sv{}
		for i, fv := range callee.FreeVars {
			if i >= len(x.Bindings) {
				break
			}
			b := x.Bindings[i]
			if _, isPtr := types.Unalias(fv.Type()).Underlying().(*types.Pointer); isPtr {
				if al, isAlloc := b.(*ssa.Alloc); isAlloc {
					if p := spilledParam(al); p != nil {
						env.vars[fv.Name()] = sv{c.vals[p], p.Type()}
						continue
					}
					a := c.addrOf(b)
					env.vars[fv.Name()] = sv{c.load(a), a.ty}
					continue
				}
			}
			if t, ok := c.vals[b]; ok {
				env.vars[fv.Name()] = sv{t, b.Type()}
			} else if k, ok := b.(*ssa.Const); ok {
				env.vars[fv.Name()] = sv{c.constTerm(k), k.Type()}
			}
		}
		blk := c.curBlock
		env.resolve = func(name string) (sv, bool) {
			if v, ok := c.lastDefIn(name, blk); ok {
				return v, true
			}
			return c.valueAt(name, blk, nil)
		}
		t, err := env.evalBool(cl.E)
		if err != nil {
			c.attachErr = fmt.Sprintf("line %d: %v", cl.Line, err)
			continue
		}
		c.oblige("captures", cl.Props, c.guard(), t, x.Pos(), cl, fmt.Sprintf("closure %d captures: %s", c.nclosures, cl.Text))
	}
}
