package main

import (
	"flag"
	"fmt"
	"os"
	"regexp"
	"sort"
	"strings"
)

func envOr(k, d string) string {
	if v := os.Getenv(k); v != "" {
		return v
	}
	return d
}

func main() {
	if len(os.Args) < 2 {
		fmt.Fprintln(os.Stderr, "usage: govc <verify|check|dump|list|replay|selftest> ...")
		os.Exit(2)
	}
	code := 0
	func() {
		defer cleanupWorkDir()
		switch os.Args[1] {
		case "verify":
			code = cmdVerify(os.Args[2:])
		case "dump":
			code = cmdDump(os.Args[2:])
		case "list":
			code = cmdList(os.Args[2:])
		case "sweep":
			code = cmdSweep(os.Args[2:])
		case "check":
			code = cmdCheck(os.Args[2:])
		case "replay":
			code = cmdReplay(os.Args[2:])
		case "selftest":
			code = cmdSelftest(os.Args[2:])
		default:
			fmt.Fprintln(os.Stderr, "unknown command", os.Args[1])
			code = 2
		}
	}()
	os.Exit(code)
}

func mustLoad() *Engine {
	e, err := loadEngine(envOr("GOVC_REPO", "/repo"), envOr("GOVC_VERIF", "/verif"))
	if err != nil {
		fmt.Fprintln(os.Stderr, "load:", err)
		os.Exit(2)
	}
	for _, er := range e.specs.Errors {
		fmt.Fprintln(os.Stderr, "contract syntax:", er)
	}
	return e
}

func cmdList(args []string) int {
	e := mustLoad()
	var keys []string
	for k := range e.funcs {
		keys = append(keys, k)
	}
	sort.Strings(keys)
	for _, k := range keys {
		if len(args) == 0 || strings.Contains(k, args[0]) {
			con := ""
			if e.contractFor(e.funcs[k]) != nil {
				con = " [contract]"
			}
			fmt.Printf("%s%s\n", k, con)
		}
	}
	return 0
}

func cmdVerify(args []string) int {
	fs := flag.NewFlagSet("verify", flag.ExitOnError)
	verbose := fs.Bool("v", false, "verbose")
	keep := fs.String("keep", "", "keep query files in this directory")
	timeout := fs.Int("t", 10, "timeout seconds")
	noHoudini := fs.Bool("nohoudini", false, "disable invariant inference")
	noSafety := fs.Bool("nosafety", false, "no safety obligations")
	framesV := fs.Bool("frames", false, "write-frame sweep mode")
	fs.Parse(args)
	e := mustLoad()
	cfg := &solverCfg{quickMs: 3000, fullMs: *timeout * 1000, workers: 16, seed: 1, keepDir: *keep}
	bad := 0
	for _, name := range fs.Args() {
		if strings.HasPrefix(name, "lemma.") {
			found := false
			for _, lem := range e.specs.Lemmas {
				if "lemma."+lem.Name == name {
					found = true
					res := e.verifyLemma(lem, lem.Props)
					solveObligs(res.obligs, cfg)
					solveObligs(res.covers, cfg)
					printResult(res, *verbose)
					for _, o := range res.obligs {
						if o.Status != "discharged" {
							bad++
						}
					}
				}
			}
			if !found {
				fmt.Printf("%s: no such lemma\n", name)
				bad++
			}
			continue
		}
		fn := e.funcs[name]
		if fn == nil {
			fmt.Printf("%s: no such function\n", name)
			bad++
			continue
		}
		res := e.verifyFunc(fn, &fnOpts{houdini: !*noHoudini, noSafety: *noSafety || *framesV, frames: *framesV, spec: e.special[name]}, cfg)
		printResult(res, *verbose)
		for _, o := range res.obligs {
			if o.Status != "discharged" {
				bad++
			}
		}
		if res.err != "" || res.attachErr != "" {
			bad++
		}
	}
	if bad > 0 {
		return 1
	}
	return 0
}

func printResult(res *fnResult, verbose bool) {
	if res.err != "" {
		fmt.Printf("%s: %s\n", res.key, res.err)
		return
	}
	if res.attachErr != "" {
		fmt.Printf("%s: contract does not attach: %s\n", res.key, res.attachErr)
	}
	for _, d := range res.dropped {
		fmt.Printf("%s: loop invariant dropped (does not attach): %s\n", res.key, d)
	}
	n, ok := len(res.obligs), 0
	var t float64
	for _, o := range res.obligs {
		if o.Status == "discharged" {
			ok++
		}
		t += o.Time
	}
	fmt.Printf("%s: %d/%d discharged, loops=%d houdini-rounds=%d solver=%.2fs\n", res.key, ok, n, res.loops, res.rounds, t)
	if verbose {
		for _, inv := range res.inferred {
			fmt.Printf("    inferred %s\n", inv)
		}
		for _, u := range res.uncontracted {
			fmt.Printf("    uncontracted call: %s\n", u)
		}
	}
	for _, o := range res.obligs {
		if o.Status != "discharged" || verbose {
			fmt.Printf("    %-10s %-8s %5.2fs %s @%s  %s\n", o.Status, o.Solver, o.Time, o.Name, o.PosStr, o.Detail)
		}
	}
	for _, o := range res.covers {
		if o.Status == "unsat" {
			fmt.Printf("    VACUOUS: cover %s is unsatisfiable\n", o.Name)
		}
	}
}

func cmdDump(args []string) int {
	e := mustLoad()
	for _, name := range args {
		fn := e.funcs[name]
		if fn == nil {
			fmt.Printf("%s: no such function\n", name)
			continue
		}
		fn.WriteTo(os.Stdout)
		res := e.genFunc(fn, &fnOpts{houdini: true, spec: e.special[name]}, &solverCfg{workers: 16})
		if res.err != "" {
			fmt.Println(res.err)
			continue
		}
		for i, o := range res.obligs {
			fmt.Printf(";; ---- obligation %d: %s (%s) %s\n", i, o.Name, o.PosStr, o.Detail)
		}
		if len(res.obligs) > 0 {
			o := res.obligs[len(res.obligs)-1]
			fmt.Println(o.ctx.queryText(o, true))
		}
	}
	return 0
}

// cmdSweep: statistics of the zero-annotation safety sweep over functions matching a regexp.
func cmdSweep(args []string) int {
	fs := flag.NewFlagSet("sweep", flag.ExitOnError)
	verbose := fs.Bool("v", false, "list undischarged obligations")
	file := fs.String("file", "", "restrict to functions defined in this file (suffix match)")
	baseline := fs.String("write-baseline", "", "write the list of clean functions to this file")
	frames := fs.Bool("frames", false, "write-frame sweep (C05/C06) instead of the safety sweep")
	files := fs.String("files", "", "comma-separated list of source files (relative to the repo) to restrict to")
	fs.Parse(args)
	e := mustLoad()
	pat := ".*"
	if fs.NArg() > 0 {
		pat = fs.Arg(0)
	}
	re := regexp.MustCompile(pat)
	var keys []string
	for k, fn := range e.funcs {
		if !re.MatchString(k) || len(fn.Blocks) == 0 {
			continue
		}
		if *file != "" {
			pos := e.fset.Position(fn.Pos())
			if !strings.HasSuffix(pos.Filename, *file) {
				continue
			}
		}
		if *files != "" {
			okf := false
			rel := e.relFile(fn)
			for _, f := range strings.Split(*files, ",") {
				if rel == f {
					okf = true
				}
			}
			if !okf {
				continue
			}
		}
		if con := e.contractFor(fn); con != nil && con.Trusted {
			continue
		}
		keys = append(keys, k)
	}
	sort.Strings(keys)
	cfg := &solverCfg{quickMs: 3000, fullMs: 5000, workers: 16, seed: 1}
	type row struct {
		res *fnResult
	}
	rows := make([]*fnResult, len(keys))
	sem := make(chan struct{}, 4)
	done := make(chan int)
	for i, k := range keys {
		go func(i int, k string) {
			sem <- struct{}{}
			rows[i] = e.genFunc(e.funcs[k], &fnOpts{houdini: true, spec: e.special[k], frames: *frames, noSafety: *frames}, cfg)
			<-sem
			done <- i
		}(i, k)
	}
	for range keys {
		<-done
	}
	var all []*Oblig
	for _, r := range rows {
		all = append(all, r.obligs...)
	}
	solveObligs(all, cfg)
	tot, ok, outside, clean := 0, 0, 0, 0
	for _, r := range rows {
		if r.err != "" {
			outside++
			fmt.Printf("%-50s OUTSIDE %s\n", r.key, r.err)
			continue
		}
		n, d := 0, 0
		for _, o := range r.obligs {
			n++
			if o.Status == "discharged" {
				d++
			}
		}
		tot += n
		ok += d
		if n == d {
			clean++
		}
		mark := "ok"
		if n != d {
			mark = "FAIL"
		}
		fmt.Printf("%-50s %-4s %d/%d\n", r.key, mark, d, n)
		if *verbose {
			for _, o := range r.obligs {
				if o.Status != "discharged" {
					fmt.Printf("      %-8s %s @%s %s\n", o.Status, o.Name, o.PosStr, o.Detail)
				}
			}
		}
	}
	fmt.Printf("functions=%d clean=%d outside-subset=%d obligations=%d discharged=%d\n", len(rows), clean, outside, tot, ok)
	if *baseline != "" {
		var sb strings.Builder
		for _, r := range rows {
			if r.err != "" || r.attachErr != "" {
				continue
			}
			good := true
			for _, o := range r.obligs {
				if o.Status != "discharged" {
					good = false
				}
			}
			if good {
				fmt.Fprintf(&sb, "%s %d\n", r.key, len(r.obligs))
			}
		}
		os.WriteFile(*baseline, []byte(sb.String()), 0o644)
	}
	return 0
}
