package main

import (
	"fmt"
	"go/types"
	"sort"
	"strings"

	"golang.org/x/tools/go/ssa"
)

// anyFunc returns some function of the package (lemma contexts need one for name resolution).
func (e *Engine) anyFunc(pkgPath string) *ssa.Function {
	var keys []string
	for k := range e.funcs {
		keys = append(keys, k)
	}
	sort.Strings(keys)
	for _, k := range keys {
		fn := e.funcs[k]
		if pk := e.fnPkg(fn); pk != nil && (pkgPath == "" || pk.Pkg.Path() == pkgPath) && e.special[k] == nil {
			return fn
		}
	}
	return nil
}

func (e *Engine) lemmaCtx(lem *Lemma) *FnCtx {
	fn := e.anyFunc(lem.Pkg)
	c := e.newCtx(fn, &fnOpts{}, nil)
	c.con = nil
	c.key = "lemma." + lem.Name
	if len(lem.Using) > 0 {
		c.using = map[string]bool{}
		for _, n := range lem.Using {
			c.using[n] = true
		}
	}
	c.entry = heapState{}
	c.cur = heapState{}
	c.heapDecl("ALLOC", "Int")
	return c
}

// lemmaFormula evaluates requires/ensures/decreases of a lemma with the parameters bound to
// the given terms (by name).
func (c *FnCtx) lemmaParts(lem *Lemma, bind map[string]sv) (req []string, ens []string, ensCl []*Clause, dec string, err error) {
	var uses []string
	defer func() {
		if c.key == "lemma."+lem.Name && c.lemmaUsesOnce < 1 {
			c.lemmaUsesOnce++
			for _, u := range uses {
				c.assume(u)
			}
		}
	}()
	env := &specEnv{c: c, vars: bind, heap: c.cur, old: nil}
	if p := c.eng.pkgs[lem.Pkg]; p != nil {
		env.pkg = p.Pkg
	} else {
		env.pkg = c.pkgTypes()
	}
	for _, cl := range lem.Clauses {
		switch cl.Kind {
		case "requires":
			t, e2 := env.evalBool(cl.E)
			if e2 != nil {
				return nil, nil, nil, "", fmt.Errorf("line %d: %v", cl.Line, e2)
			}
			req = append(req, t)
		case "use":
			// only in the lemma's own proof: an explicit instance of an axiom or of another lemma
			if c.key != "lemma."+lem.Name {
				continue
			}
			call, ok := cl.E.(*ECall)
			okName := false
			if ok {
				for _, l2 := range c.eng.specs.Lemmas {
					if l2.Name == call.Fun && l2.Name != lem.Name {
						okName = true
					}
				}
				for _, ax := range c.eng.specs.Axioms {
					if ax.Name == call.Fun {
						okName = true
					}
				}
			}
			if !okName {
				return nil, nil, nil, "", fmt.Errorf("line %d: use needs an axiom or lemma application", cl.Line)
			}
			t, e2 := env.evalBool(cl.E)
			if e2 != nil {
				return nil, nil, nil, "", fmt.Errorf("line %d: %v", cl.Line, e2)
			}
			uses = append(uses, t)
		case "ensures":
			t, e2 := env.evalBool(cl.E)
			if e2 != nil {
				return nil, nil, nil, "", fmt.Errorf("line %d: %v", cl.Line, e2)
			}
			ens = append(ens, t)
			ensCl = append(ensCl, cl)
		case "decreases":
			saved := c.cur
			c.cur = env.heap.clone()
			func() {
				defer func() {
					if r := recover(); r != nil {
						err = fmt.Errorf("line %d: %v", cl.Line, r)
					}
				}()
				dec = env.eval(cl.E).t
			}()
			c.cur = saved
			if err != nil {
				return
			}
		}
	}
	return
}

// verifyLemma generates the proof obligations of a lemma (explicit induction, DESIGN §2.4.5).
func (e *Engine) verifyLemma(lem *Lemma, props []string) *fnResult {
	c := e.lemmaCtx(lem)
	c.lemmaHeapValid = lem.HeapValid
	res := &fnResult{key: c.key}
	bind := map[string]sv{}
	for _, p := range lem.Params {
		ty, err := e.tryResolveType(c.pkgTypes(), p.Type)
		if err != nil {
			res.attachErr = err.Error()
			return res
		}
		n := "lp_" + p.Name
		c.declare(n, c.sorts.sortOf(ty))
		bind[p.Name] = sv{n, ty}
		// parameters range over type-valid values (the lemma is also only used for such values)
		switch types.Unalias(ty).Underlying().(type) {
		case *types.Slice:
			c.assume(app("validSlice", n))
		case *types.Interface:
			c.assume(app("validVal", n))
		case *types.Pointer, *types.Map:
			c.assume(le("0", n))
		}
	}
	if len(lem.Enum) > 0 {
		// exhaustive enumeration of finitely many parameter values (complete, not a sample); the
		// declared ranges must cover the lemma's preconditions, which is an obligation of its own
		var rangeOK []string
		for _, ev := range lem.Enum {
			v, ok := bind[ev.Name]
			if !ok {
				res.attachErr = "unknown enumerated parameter " + ev.Name
				return res
			}
			rangeOK = append(rangeOK, le(intLit(int64(ev.Lo)), v.t), le(v.t, intLit(int64(ev.Hi))))
		}
		req0, _, _, _, err := c.lemmaParts(lem, bind)
		if err != nil {
			res.attachErr = err.Error()
			return res
		}
		c.oblige("lemma-enum-covers", props, and(req0...), and(rangeOK...), 0, nil, "the enumerated ranges cover the lemma's preconditions")
		var insts []string
		var rec func(i int, b map[string]sv)
		rec = func(i int, b map[string]sv) {
			if err != nil {
				return
			}
			if i == len(lem.Enum) {
				rq, en, _, _, e2 := c.lemmaParts(lem, b)
				if e2 != nil {
					err = e2
					return
				}
				insts = append(insts, implies(and(rq...), and(en...)))
				return
			}
			ev := lem.Enum[i]
			for x := ev.Lo; x <= ev.Hi; x++ {
				nb := map[string]sv{}
				for k, v := range b {
					nb[k] = v
				}
				nb[ev.Name] = sv{intLit(int64(x)), bind[ev.Name].ty}
				rec(i+1, nb)
			}
		}
		rec(0, bind)
		if err != nil {
			res.attachErr = err.Error()
			return res
		}
		// one obligation per 64 instances keeps each query small
		for i := 0; i < len(insts); i += 2048 {
			j := min(i+2048, len(insts))
			o := c.obligeRaw("lemma-enum", props, and(insts[i:j]...), 0, nil, fmt.Sprintf("lemma %s: instances %d..%d of %d (exhaustive)", lem.Name, i, j-1, len(insts)))
			_ = o
		}
		c.finalize()
		res.obligs = c.obligs
		return res
	}
	req, ens, ensCl, dec, err := c.lemmaParts(lem, bind)
	if err != nil {
		res.attachErr = err.Error()
		return res
	}
	for _, r := range req {
		c.assume(r)
	}
	if dec != "" {
		c.oblige("lemma-measure", props, "true", le("0", dec), 0, nil, "measure is non-negative under the lemma's preconditions")
	}
	if lem.Induct != "" {
		iv, ok := bind[lem.Induct]
		if !ok {
			res.attachErr = "unknown induction variable " + lem.Induct
			return res
		}
		bind2 := map[string]sv{}
		for k, v := range bind {
			bind2[k] = v
		}
		bind2[lem.Induct] = sv{sub(iv.t, "1"), iv.ty}
		var gvars [][2]string
		var gguards []string
		for _, g := range lem.General {
			pv, ok := bind[g]
			if !ok || g == lem.Induct {
				res.attachErr = "generalize: unknown parameter " + g
				return res
			}
			c.nfresh++
			n := fmt.Sprintf("%s!q%d", g, c.nfresh)
			srt := c.sorts.sortOf(pv.ty)
			gvars = append(gvars, [2]string{n, srt})
			bind2[g] = sv{n, pv.ty}
			switch types.Unalias(pv.ty).Underlying().(type) {
			case *types.Slice:
				gguards = append(gguards, app("validSlice", n))
			case *types.Interface:
				gguards = append(gguards, app("validVal", n))
			case *types.Pointer, *types.Map:
				gguards = append(gguards, le("0", n))
			}
		}
		req2, ens2, _, dec2, err := c.lemmaParts(lem, bind2)
		if err != nil {
			res.attachErr = err.Error()
			return res
		}
		// a precondition that does not mention the induction variable is the same formula for v-1:
		// it is already assumed, so it need not be re-established for the induction hypothesis
		// (quantified preconditions would otherwise have to be re-proved up to bound-variable names)
		var need []string
		for i, r2 := range req2 {
			if i < len(req) && qvarRe.ReplaceAllString(r2, "!q") == qvarRe.ReplaceAllString(req[i], "!q") {
				continue
			}
			need = append(need, r2)
		}
		guard := and(need...)
		if dec != "" {
			guard = and(guard, le("0", dec2), lt(dec2, dec))
		} else {
			res.attachErr = "induct needs a decreases clause"
			return res
		}
		if len(gvars) > 0 {
			// structural induction: the hypothesis for the smaller measure holds for all values of
			// the generalised parameters (instantiated through the lemma's trigger)
			env2 := &specEnv{c: c, vars: bind2, heap: c.cur}
			if p := c.eng.pkgs[lem.Pkg]; p != nil {
				env2.pkg = p.Pkg
			}
			var pats []string
			var perr error
			for _, t := range lem.Triggers {
				func() {
					defer func() {
						if r := recover(); r != nil {
							perr = fmt.Errorf("trigger: %v", r)
						}
					}()
					pats = append(pats, env2.eval(t).t)
				}()
			}
			if perr != nil || len(pats) == 0 {
				res.attachErr = "generalize needs a trigger clause that attaches"
				return res
			}
			var needAll []string
			needAll = append(needAll, gguards...)
			needAll = append(needAll, req2...)
			g2 := and(append(needAll, le("0", dec2), lt(dec2, dec))...)
			c.assume(forall(gvars, implies(g2, and(ens2...)), strings.Join(pats, " ")))
		} else {
			c.assume(implies(guard, and(ens2...))) // induction hypothesis
		}
	}
	for i, t := range ens {
		c.oblige("lemma", props, "true", t, 0, ensCl[i], "lemma "+lem.Name+": "+ensCl[i].Text)
	}
	c.finalize()
	res.obligs = c.obligs
	// the hypotheses must be satisfiable (vacuity guard)
	res.covers = append(res.covers, &Oblig{Name: c.key + "/cover/requires", Kind: "cover", Goal: "true", Prefix: len(c.ctx), Fn: c.key, Cover: true, ctx: c})
	return res
}

// lemmaAxiom: the lemma as a quantified fact for use in function proofs.
func (c *FnCtx) lemmaAxiom(lem *Lemma) (string, []string, error) {
	bind := map[string]sv{}
	var vars [][2]string
	var guards []string
	for _, p := range lem.Params {
		ty, err := c.eng.tryResolveType(c.pkgTypes(), p.Type)
		if err != nil {
			return "", nil, err
		}
		c.nfresh++
		n := fmt.Sprintf("%s!q%d", p.Name, c.nfresh)
		vars = append(vars, [2]string{n, c.sorts.sortOf(ty)})
		bind[p.Name] = sv{n, ty}
		switch types.Unalias(ty).Underlying().(type) {
		case *types.Slice:
			guards = append(guards, app("validSlice", n))
		case *types.Interface:
			guards = append(guards, app("validVal", n))
		case *types.Pointer, *types.Map:
			guards = append(guards, le("0", n))
		}
	}
	req, ens, _, _, err := c.lemmaParts(lem, bind)
	if err != nil {
		return "", nil, err
	}
	req = append(guards, req...)
	env := &specEnv{c: c, vars: bind, heap: c.cur}
	if p := c.eng.pkgs[lem.Pkg]; p != nil {
		env.pkg = p.Pkg
	}
	var pats []string
	saved := c.cur
	c.cur = c.entry.clone()
	for _, t := range lem.Triggers {
		func() {
			defer func() {
				if r := recover(); r != nil {
					err = fmt.Errorf("trigger: %v", r)
				}
			}()
			pats = append(pats, env.eval(t).t)
		}()
	}
	c.cur = saved
	if err != nil {
		return "", nil, err
	}
	body := implies(and(req...), and(ens...))
	var text string
	if len(pats) > 0 {
		ps := ""
		for i, p := range pats {
			if i > 0 {
				ps += " "
			}
			ps += p
		}
		text = forall(vars, body, ps)
	} else {
		text = forall(vars, body)
	}
	names := map[string]bool{}
	for _, cl := range lem.Clauses {
		c.eng.specCallClosure(cl.E, names, 0)
	}
	var syms []string
	for n := range names {
		if sf := c.eng.specs.Funcs[n]; sf != nil && sf.Body == nil {
			syms = append(syms, "sf_"+n)
		}
	}
	sort.Strings(syms)
	return text, syms, nil
}
