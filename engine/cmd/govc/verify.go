package main

import (
	"crypto/sha256"
	"fmt"
	"go/types"
	"os"
	"regexp"
	"sort"
	"strings"

	"golang.org/x/tools/go/ssa"
)

type axiomInst struct {
	name string
	syms []string
	text string
}

type fnResult struct {
	key           string
	fn            *ssa.Function
	con           *Contract
	err           string // outside subset
	attachErr     string // the contract does not attach
	dropped       []string
	obligs        []*Oblig
	loops         int
	rounds        int
	inferred      []string
	usedContracts []string
	usedTrusted   []string
	uncontracted  []string
	srcHash       string
	returns       int
	covers        []*Oblig
}

func (e *Engine) newCtx(fn *ssa.Function, opts *fnOpts, st *fnState) *FnCtx {
	c := &FnCtx{eng: e, fn: fn, con: e.contractFor(fn), key: e.displayKey(fn), sorts: newSorts(),
		declSet: map[string]bool{}, vals: map[ssa.Value]string{}, tuples: map[ssa.Value][]string{}, addrs: map[ssa.Value]*addr{},
		heapSort: map[string]string{}, out: map[*ssa.BasicBlock]heapState{}, reach: map[*ssa.BasicBlock]string{},
		edges: map[[2]int]string{}, loops: map[*ssa.BasicBlock]*loopInfo{}, locals: map[*ssa.Alloc]string{},
		iters: map[ssa.Value]*iterInfo{}, closures: map[ssa.Value]*ssa.MakeClosure{}, strlits: map[string]string{},
		names: map[string]bool{}, opts: opts, usedContracts: map[string]bool{}, usedExternal: map[string]bool{},
		nameCount: map[string]int{}, prevHeap: map[string]string{}, uncontracted: map[string]bool{},
		usedSpecFuncs: map[string]bool{}, readSnaps: map[string]heapState{}, volatile: map[string]bool{}, volatileRefs: map[string][]string{}, usedLemmaCalls: map[string]bool{}, sobSeen: map[string]bool{}, captured: map[*ssa.Alloc]bool{}, boundFuncs: map[ssa.Value]*ssa.Function{}, state: st}
	if st != nil {
		c.knownHeaps = st.knownHeaps
		c.knownLocals = st.knownLocals
	}
	if opts != nil && opts.spec != nil {
		c.con, c.key = opts.spec.con, opts.spec.key
		for k, v := range opts.spec.bound {
			c.boundFuncs[k] = v
		}
	}
	if c.con != nil && c.con.Flags["json"] {
		c.jsonMode = true
	}
	if c.con != nil && len(c.con.Using) > 0 {
		c.using = map[string]bool{}
		for _, n := range c.con.Using {
			c.using[n] = true
		}
	}
	return c
}

// finalize instantiates the spec axioms (single-threaded, before queries are built).
func (c *FnCtx) finalize() {
	if c.finalized {
		return
	}
	c.finalized = true
	defer c.addLemmas()
	c.addSpecFrames()
	env := &specEnv{c: c, vars: map[string]sv{}, heap: c.entry, pkg: c.pkgTypes()}
	// evaluate every axiom whose spec functions are (transitively) used
	done := map[*Axiom]bool{}
	for changed := true; changed; {
		changed = false
		for _, ax := range c.eng.specs.Axioms {
			if done[ax] {
				continue
			}
			if c.using != nil && !c.using[ax.Name] {
				continue
			}
			names := map[string]bool{}
			c.eng.specCallClosure(ax.E, names, 0)
			rel := false
			for n := range names {
				if c.usedSpecFuncs[n] {
					rel = true
				}
			}
			if c.using != nil && c.using[ax.Name] {
				// an axiom over built-in operators only (float facts), requested by name
				onlyBuiltins := len(names) > 0
				for n := range names {
					if c.eng.specs.Funcs[n] != nil {
						onlyBuiltins = false
					}
				}
				if onlyBuiltins {
					rel = true
				}
			}
			if len(names) == 0 && c.usesStrLt {
				// an axiom over built-in operators only (the order on strings)
				rel = true
			}
			if !rel {
				continue
			}
			done[ax] = true
			changed = true
			env.pkg = c.eng.axiomPkg(ax, c)
			// axioms over heap-reading spec functions are instantiated for every heap snapshot at
			// which such a function is applied in this function's conditions (quantifying over
			// array-sorted heap variables makes the solvers give up)
			closure := map[string]bool{}
			c.eng.specCallClosure(ax.E, closure, 0)
			readsHeaps := false
			for n := range closure {
				if sf := c.eng.specs.Funcs[n]; sf != nil && len(sf.Reads) > 0 {
					readsHeaps = true
				}
			}
			var texts []string
			c.inAxiom = true
			if !readsHeaps {
				env.heap = c.entry
				t, err := env.evalBool(ax.E)
				if err != nil {
					c.notes = append(c.notes, fmt.Sprintf("axiom %s: %v", ax.Name, err)); fmt.Fprintf(os.Stderr, "NOTE axiom %s: %v\n", ax.Name, err)
				} else {
					texts = append(texts, t)
				}
			} else {
				seenText := map[string]bool{}
				for _, key := range c.readSnapOrder {
					h := c.entry.clone()
					for k, v := range c.readSnaps[key] {
						h[k] = v
					}
					env.heap = h
					nf := c.nfresh
					t, err := env.evalBool(ax.E)
					if err != nil {
						c.notes = append(c.notes, fmt.Sprintf("axiom %s: %v", ax.Name, err))
						break
					}
					_ = nf
					norm := qvarRe.ReplaceAllString(t, "!q")
					if !seenText[norm] {
						seenText[norm] = true
						texts = append(texts, t)
					}
				}
				env.heap = c.entry
			}
			c.inAxiom = false
			if len(texts) == 0 {
				continue
			}
			t := and(texts...)
			var syms []string
			for n := range names {
				if sf := c.eng.specs.Funcs[n]; sf != nil && sf.Body == nil {
					syms = append(syms, "sf_"+n)
				}
			}
			sort.Strings(syms)
			if len(names) == 0 {
				syms = []string{"str_lt"} // included in the queries in which a string comparison occurs
			}
			builtinOnly := len(names) > 0
			for n := range names {
				if c.eng.specs.Funcs[n] != nil {
					builtinOnly = false
				}
			}
			if len(syms) == 0 && builtinOnly && c.using != nil && c.using[ax.Name] {
				// a float fact requested by name: included where float arithmetic occurs
				syms = []string{"f64_add", "f64_div", "f64_mul", "f64_sub"}
			}
			c.axioms = append(c.axioms, axiomInst{name: ax.Name, syms: syms, text: t})
			c.usedAxioms = append(c.usedAxioms, ax.Name)
		}
	}
}

var qvarRe = regexp.MustCompile(`!q[0-9]+`)

// addSpecFrames: a heap-reading spec function depends only on its arguments and on what is reachable
// from them. For two snapshots H1, H2 of the heaps it reads: if every object that existed at H1
// (references up to the allocation watermark W1 recorded with H1) has the same content in H2, then the
// function has the same value in both for all arguments that existed at H1 (their own references are at
// most W1; everything reachable from them existed by then). Stated per ordered pair of snapshots and per
// function, with the agreement hypothesis as a propositional constant whose defining implication is
// skolemised (so the solver refutes a disagreement at one witness reference instead of proving a
// universal statement under a quantifier).
func (c *FnCtx) addSpecFrames() {
	if c.con == nil || !c.con.Flags["specframes"] {
		return // only on request: the extra quantified facts are not needed by the proofs made so far
	}
	if len(c.readSnapOrder) < 2 || len(c.readSnapOrder) > 8 {
		return
	}
	names := func(key string) string {
		var hs []string
		for h := range c.readSnaps[key] {
			if h != "ALLOC" {
				hs = append(hs, h)
			}
		}
		sort.Strings(hs)
		return strings.Join(hs, ",")
	}
	var fns []string
	for n := range c.usedSpecFuncs {
		if sf := c.eng.specs.Funcs[n]; sf != nil && sf.Body == nil && len(sf.Reads) > 0 {
			fns = append(fns, n)
		}
	}
	sort.Strings(fns)
	cnt := 0
	for _, k1 := range c.readSnapOrder {
		for _, k2 := range c.readSnapOrder {
			if k1 == k2 || names(k1) != names(k2) {
				continue
			}
			s1, s2 := c.readSnaps[k1], c.readSnaps[k2]
			w1 := s1["ALLOC"]
			if w1 == "" {
				continue
			}
			var disagree []string
			ok := true
			var hs []string
			for h := range s1 {
				if h != "ALLOC" {
					hs = append(hs, h)
				}
			}
			sort.Strings(hs)
			for _, h := range hs {
				if s1[h] == s2[h] {
					continue
				}
				if !strings.HasPrefix(c.heapSort[h], "(Array Int ") {
					ok = false
					break
				}
				cnt++
				r := fmt.Sprintf("r!sfw%d", cnt)
				c.declare(r, "Int")
				disagree = append(disagree, and(le(r, w1), not(eq(sel(s2[h], r), sel(s1[h], r)))))
			}
			if !ok || len(disagree) == 0 {
				continue
			}
			cnt++
			ag := fmt.Sprintf("agree!sf%d", cnt)
			c.declare(ag, "Bool")
			for _, fn := range fns {
				sf := c.eng.specs.Funcs[fn]
				rs := append([]string{}, sf.Reads...)
				sort.Strings(rs)
				if strings.Join(rs, ",") != names(k1) {
					continue
				}
				var vars [][2]string
				var guards, args []string
				pk := c.pkgTypes()
				bad := false
				for i, p := range sf.Params {
					pty, err := c.eng.tryResolveType(pk, p.Type)
					if err != nil {
						if p2 := c.eng.pkgs[gojqPath]; p2 != nil {
							pty, err = c.eng.tryResolveType(p2.Pkg, p.Type)
						}
					}
					if err != nil {
						bad = true
						break
					}
					v := fmt.Sprintf("x%d!qf%d", i, cnt)
					srt := c.sorts.sortOf(pty)
					vars = append(vars, [2]string{v, srt})
					args = append(args, v)
					switch types.Unalias(pty).Underlying().(type) {
					case *types.Slice:
						guards = append(guards, app("validSlice", v), le(app("s-arr", v), w1))
					case *types.Interface:
						guards = append(guards, app("validVal", v), app("valRefsLE", v, w1))
					case *types.Pointer, *types.Map:
						guards = append(guards, le("0", v), le(v, w1))
					}
				}
				if bad {
					continue
				}
				h1 := append([]string{}, args...)
				h2 := append([]string{}, args...)
				for _, h := range sf.Reads {
					h1 = append(h1, s1[h])
					h2 = append(h2, s2[h])
				}
				t1, t2 := app("sf_"+fn, h1...), app("sf_"+fn, h2...)
				body := implies(and(append([]string{ag}, guards...)...), eq(t1, t2))
				text := and(or(append(append([]string{}, disagree...), ag)...), forall(vars, body, t2))
				c.axioms = append(c.axioms, axiomInst{name: "frame:" + fn, syms: []string{"sf_" + fn}, text: text})
			}
		}
	}
}

// addLemmas: proved lemmas whose spec functions are used become quantified facts.
func (c *FnCtx) addLemmas() {
	for _, lem := range c.eng.specs.Lemmas {
		if "lemma."+lem.Name == c.key {
			continue // a lemma is not available in its own proof (only its induction hypothesis)
		}
		if c.using != nil && !c.using[lem.Name] {
			continue
		}
		if (len(lem.Triggers) == 0 || len(lem.General) > 0) && (c.using == nil || !c.using[lem.Name]) {
			// a lemma without a trigger (or whose trigger only serves its generalised induction hypothesis)
			// is a proof step, available through an explicit `use` (or a
			// `using` list) only: as a quantified fact without a pattern it would burden every proof
			// that happens to mention one of its spec functions
			continue
		}
		names := map[string]bool{}
		for _, cl := range lem.Clauses {
			c.eng.specCallClosure(cl.E, names, 0)
		}
		rel := false
		for n := range names {
			if c.usedSpecFuncs[n] {
				rel = true
			}
		}
		if !rel {
			continue
		}
		c.inAxiom = true
		t, syms, err := c.lemmaAxiom(lem)
		c.inAxiom = false
		if err != nil {
			c.notes = append(c.notes, fmt.Sprintf("lemma %s: %v", lem.Name, err))
			continue
		}
		c.axioms = append(c.axioms, axiomInst{name: "lemma " + lem.Name, syms: syms, text: t})
		c.usedLemmas = append(c.usedLemmas, lem.Name)
	}
}

func (e *Engine) axiomPkg(ax *Axiom, c *FnCtx) *typesPackage {
	if strings.Contains(ax.File, "/cli/") {
		if p := e.pkgs[cliPath]; p != nil {
			return p.Pkg
		}
	}
	if strings.HasSuffix(ax.File, "contracts_verif.go") {
		if p := e.pkgs[gojqPath]; p != nil {
			return p.Pkg
		}
	}
	return c.pkgTypes()
}

// specCallClosure collects spec functions called by x, following macro bodies.
func (e *Engine) specCallClosure(x Expr, into map[string]bool, depth int) {
	if depth > 8 {
		return
	}
	names := map[string]bool{}
	collectCalls(x, names)
	for n := range names {
		if into[n] {
			continue
		}
		into[n] = true
		if sf := e.specs.Funcs[n]; sf != nil && sf.Body != nil {
			e.specCallClosure(sf.Body, into, depth+1)
		}
	}
}

func bindersText(vs [][2]string) string {
	var sb strings.Builder
	for _, v := range vs {
		fmt.Fprintf(&sb, "(%s %s)", v[0], v[1])
	}
	return sb.String()
}

// splitForallKeep splits (forall (binders) body) keeping the body (with its pattern annotation).
func splitForallKeep(s string) (vars [][2]string, body string, ok bool) {
	h, args, ok2 := splitTop(s)
	if !ok2 || h != "forall" || len(args) != 2 {
		return nil, "", false
	}
	bl := args[0]
	for _, b := range splitItems(bl[1 : len(bl)-1]) {
		its := splitItems(b[1 : len(b)-1])
		if len(its) != 2 {
			return nil, "", false
		}
		vars = append(vars, [2]string{its[0], its[1]})
	}
	return vars, args[1], true
}

func collectCalls(x Expr, into map[string]bool) {
	switch n := x.(type) {
	case *ECall:
		into[n.Fun] = true
		for _, a := range n.Args {
			collectCalls(a, into)
		}
	case *EUnary:
		collectCalls(n.X, into)
	case *EBinary:
		collectCalls(n.X, into)
		collectCalls(n.Y, into)
	case *ECond:
		collectCalls(n.C, into)
		collectCalls(n.A, into)
		collectCalls(n.B, into)
	case *ESel:
		collectCalls(n.X, into)
	case *EIndex:
		collectCalls(n.X, into)
		collectCalls(n.I, into)
	case *ESlice:
		collectCalls(n.X, into)
		if n.Lo != nil {
			collectCalls(n.Lo, into)
		}
		if n.Hi != nil {
			collectCalls(n.Hi, into)
		}
	case *EQuant:
		collectCalls(n.Body, into)
		for _, p := range n.Pats {
			collectCalls(p, into)
		}
	case *EOld:
		collectCalls(n.X, into)
	case *EIs:
		collectCalls(n.X, into)
	case *EAssert:
		collectCalls(n.X, into)
	}
}

func (e *Engine) srcHashOf(fn *ssa.Function) string {
	if fn.Syntax() == nil {
		return ""
	}
	s, en := e.fset.Position(fn.Syntax().Pos()), e.fset.Position(fn.Syntax().End())
	var data []byte
	if ov, ok := e.overlay[s.Filename]; ok {
		data = ov
	} else {
		var err error
		data, err = os.ReadFile(s.Filename)
		if err != nil {
			return ""
		}
	}
	if s.Offset < 0 || en.Offset > len(data) || s.Offset > en.Offset {
		return ""
	}
	return fmt.Sprintf("%x", sha256.Sum256(data[s.Offset:en.Offset]))[:16]
}

// verifyFunc generates and (unless dry) discharges the obligations of one function.
func (e *Engine) verifyFunc(fn *ssa.Function, opts *fnOpts, cfg *solverCfg) *fnResult {
	return e.verifyFunc2(fn, opts, cfg, true)
}

func (e *Engine) genFunc(fn *ssa.Function, opts *fnOpts, cfg *solverCfg) *fnResult {
	return e.verifyFunc2(fn, opts, cfg, false)
}

func (e *Engine) verifyFunc2(fn *ssa.Function, opts *fnOpts, cfg *solverCfg, solve bool) *fnResult {
	res := &fnResult{key: e.displayKey(fn), fn: fn, con: e.contractFor(fn), srcHash: e.srcHashOf(fn)}
	if opts != nil && opts.spec != nil {
		res.key, res.con = opts.spec.key, opts.spec.con
	}
	st := &fnState{cands: map[int][]*candidate{}}
	// pass 1: discover heaps
	c := e.newCtx(fn, opts, st)
	if err := c.run(); err != nil {
		res.err = err.Error()
		return res
	}
	st.knownHeaps = map[string]string{}
	st.knownLocals = map[string]string{}
	for h, s := range c.heapSort {
		if !c.isLocalHeap(h) {
			st.knownHeaps[h] = s
		} else {
			st.knownLocals[h] = s
		}
	}
	for round := 0; ; round++ {
		c = e.newCtx(fn, opts, st)
		if err := c.run(); err != nil {
			res.err = err.Error()
			return res
		}
		// new heaps may have shown up (through contracts); iterate once more if so
		grew := false
		for h, s := range c.heapSort {
			if _, ok := st.knownHeaps[h]; !ok && !c.isLocalHeap(h) {
				st.knownHeaps[h] = s
				grew = true
			}
		}
		if grew && round < 3 {
			continue
		}
		if len(c.houdiniObs) == 0 {
			break
		}
		c.finalize()
		obs := make([]*Oblig, len(c.houdiniObs))
		for i, h := range c.houdiniObs {
			obs[i] = h.o
		}
		quickCheck(obs, 2000, cfg.workers)
		killed := 0
		for _, h := range c.houdiniObs {
			if h.o.Status != "discharged" && h.cand.alive {
				h.cand.alive = false
				killed++
			}
		}
		res.rounds++
		if os.Getenv("GOVC_DEBUG") != "" {
			alive := 0
			for _, cs := range st.cands {
				for _, cd := range cs {
					if cd.alive {
						alive++
					}
				}
			}
			fmt.Fprintf(os.Stderr, "houdini %s round %d: %d checks, killed %d, alive %d\n", res.key, round, len(c.houdiniObs), killed, alive)
		}
		if killed == 0 || round > 12 {
			if killed > 0 {
				// give up on all remaining candidates of this function
				for _, cs := range st.cands {
					for _, cd := range cs {
						cd.alive = false
					}
				}
				continue
			}
			break
		}
	}
	c.finalize()
	res.obligs = c.obligs
	res.attachErr = c.attachErr
	res.dropped = c.dropped
	res.loops = len(c.loopList)
	res.returns = c.retCount
	for _, li := range c.loopList {
		for _, cd := range st.cands[li.ordinal] {
			if cd.alive {
				res.inferred = append(res.inferred, fmt.Sprintf("loop %d: %s", li.ordinal, cd.text))
			}
		}
	}
	for k := range c.usedContracts {
		if c.usedExternal[k] {
			res.usedTrusted = append(res.usedTrusted, k)
		} else {
			res.usedContracts = append(res.usedContracts, k)
		}
	}
	for k := range c.uncontracted {
		res.uncontracted = append(res.uncontracted, k)
	}
	sort.Strings(res.usedContracts)
	sort.Strings(res.usedTrusted)
	sort.Strings(res.uncontracted)
	// vacuity guards: requires satisfiable at entry; each return reachable
	if res.con != nil && len(c.requiresTerms) > 0 {
		o := &Oblig{Name: res.key + "/cover/requires", Kind: "cover", Goal: "true", Prefix: c.requiresPrefix(), Fn: res.key, Cover: true, ctx: c}
		res.covers = append(res.covers, o)
	}
	res.covers = append(res.covers, c.covers...)
	if solve {
		solveObligs(res.obligs, cfg)
		if len(res.covers) > 0 {
			solveObligs(res.covers, cfg)
		}
	}
	return res
}

// requiresPrefix: the context up to and including the assumed preconditions.
func (c *FnCtx) requiresPrefix() int { return c.reqPrefix }
