package main

import "strings"

// splitTop splits "(head a b c)" into head and args; ok=false for atoms.
func splitTop(s string) (head string, args []string, ok bool) {
	if len(s) < 2 || s[0] != '(' || s[len(s)-1] != ')' {
		return "", nil, false
	}
	items := splitItems(s[1 : len(s)-1])
	if len(items) == 0 {
		return "", nil, false
	}
	return items[0], items[1:], true
}

// splitItems splits a sequence of s-expressions separated by spaces.
func splitItems(s string) []string {
	var items []string
	depth := 0
	start := -1
	inBar := false
	for i := 0; i < len(s); i++ {
		ch := s[i]
		if inBar {
			if ch == '|' {
				inBar = false
			}
			continue
		}
		switch ch {
		case '|':
			inBar = true
			if start < 0 {
				start = i
			}
		case '(':
			if start < 0 {
				start = i
			}
			depth++
		case ')':
			depth--
			if depth == 0 && start >= 0 && s[start] == '(' {
				items = append(items, s[start:i+1])
				start = -1
			}
		case ' ', '\n', '\t':
			if depth == 0 && start >= 0 {
				items = append(items, s[start:i])
				start = -1
			}
		default:
			if start < 0 {
				start = i
			}
		}
	}
	if start >= 0 {
		items = append(items, s[start:])
	}
	return items
}

func splitAnd(s string) []string {
	h, args, ok := splitTop(s)
	if !ok || h != "and" {
		return []string{s}
	}
	var out []string
	for _, a := range args {
		out = append(out, splitAnd(a)...)
	}
	return out
}

func splitImplies(s string) (a, b string, ok bool) {
	h, args, ok2 := splitTop(s)
	if !ok2 || h != "=>" || len(args) != 2 {
		return "", "", false
	}
	return args[0], args[1], true
}

// splitForall recognises (forall ((x S) ...) body) and (forall (...) (! body :pattern ...)).
func splitForall(s string) (vars [][2]string, body string, ok bool) {
	h, args, ok2 := splitTop(s)
	if !ok2 || h != "forall" || len(args) != 2 {
		return nil, "", false
	}
	bl := args[0]
	if len(bl) < 2 {
		return nil, "", false
	}
	for _, b := range splitItems(bl[1 : len(bl)-1]) {
		its := splitItems(b[1 : len(b)-1])
		if len(its) != 2 {
			return nil, "", false
		}
		vars = append(vars, [2]string{its[0], its[1]})
	}
	body = args[1]
	if h2, a2, ok3 := splitTop(body); ok3 && h2 == "!" && len(a2) >= 1 {
		body = a2[0]
	}
	return vars, body, true
}

// substSyms replaces whole-symbol occurrences according to ren.
func substSyms(s string, ren map[string]string) string {
	if len(ren) == 0 {
		return s
	}
	var sb strings.Builder
	i := 0
	for i < len(s) {
		ch := s[i]
		if ch == '(' || ch == ')' || ch == ' ' || ch == '\n' || ch == '\t' {
			sb.WriteByte(ch)
			i++
			continue
		}
		j := i
		if ch == '|' {
			j++
			for j < len(s) && s[j] != '|' {
				j++
			}
			j++
		} else {
			for j < len(s) && s[j] != '(' && s[j] != ')' && s[j] != ' ' && s[j] != '\n' && s[j] != '\t' {
				j++
			}
		}
		sym := s[i:j]
		if r, ok := ren[sym]; ok {
			sb.WriteString(r)
		} else {
			sb.WriteString(sym)
		}
		i = j
	}
	return sb.String()
}

// symbolsOf returns the set of symbols occurring in s.
func symbolsOf(s string, into map[string]bool) {
	i := 0
	for i < len(s) {
		ch := s[i]
		if ch == '(' || ch == ')' || ch == ' ' || ch == '\n' || ch == '\t' {
			i++
			continue
		}
		j := i
		if ch == '|' {
			j++
			for j < len(s) && s[j] != '|' {
				j++
			}
			j++
		} else {
			for j < len(s) && s[j] != '(' && s[j] != ')' && s[j] != ' ' && s[j] != '\n' && s[j] != '\t' {
				j++
			}
		}
		into[s[i:j]] = true
		i = j
	}
}
