package main

import (
	"encoding/json"
	"flag"
	"fmt"
	"golang.org/x/tools/go/ssa"
	"os"
	"path/filepath"
	"regexp"
	"sort"
	"strconv"
	"strings"
	"time"
)

// propDef: which functions a property's check verifies.
type propDef struct {
	ID            string   `json:"id"`
	Sweep         []string `json:"sweep"`          // regexps over display keys: zero-annotation safety sweep (C08-style)
	SweepExcept   []string `json:"sweep_except"`   // regexps excluded from the sweep
	Special       []string `json:"special"`        // special analyses: "next-skeleton", "effects", "frames"
	SweepList     string   `json:"sweep_list"`     // file (relative to /verif) listing the functions of the pinned sweep
	Frames        bool     `json:"frames"`         // the sweep is the write-frame sweep (C05/C06), not the safety sweep
	ScopeFiles    []string `json:"scope_files"`    // source files whose functions are in scope (for not_under_contract)
	KnownUnlisted string   `json:"known_unlisted"` // file listing the in-scope functions that were outside the sweep list when it was pinned
	MinObligs     int      `json:"min_obligations"`
	Note          string   `json:"note"`
}

type knownFinding struct {
	Property   string `json:"property"`
	Status     string `json:"status"` // open | fixed
	Obligation string `json:"obligation"`
	What       string `json:"what"`
	Witness    string `json:"witness"`
	Commit     string `json:"commit,omitempty"`
}

type knownFile struct {
	Findings []knownFinding `json:"findings"`
	Fixed    []string       `json:"fixed_lines"`
}

type funcEvidence struct {
	Name        string   `json:"name"`
	SrcHash     string   `json:"source_sha256_16"`
	Obligations int      `json:"obligations"`
	Discharged  int      `json:"discharged"`
	Loops       int      `json:"loops,omitempty"`
	Inferred    []string `json:"inferred_invariants,omitempty"`
	Status      string   `json:"status"`
}

func loadProps(verif string) (map[string]*propDef, error) {
	data, err := os.ReadFile(filepath.Join(verif, "props.json"))
	if err != nil {
		return nil, err
	}
	var list []*propDef
	if err := json.Unmarshal(data, &list); err != nil {
		return nil, err
	}
	m := map[string]*propDef{}
	for _, p := range list {
		m[p.ID] = p
	}
	return m, nil
}

func hasProp(props []string, id string) bool {
	for _, p := range props {
		if p == id {
			return true
		}
	}
	return false
}

// contractTagged reports whether a contract has any clause routed to property id.
func contractTagged(con *Contract, id string) bool {
	for _, cl := range con.Clauses {
		if hasProp(cl.Props, id) {
			return true
		}
	}
	return false
}

func cmdCheck(args []string) int {
	fs := flag.NewFlagSet("check", flag.ExitOnError)
	tier := fs.String("tier", envOr("VERIF_TIER", "quick"), "quick|thorough")
	keep := fs.String("keep", "", "keep query files")
	only := fs.String("only", "", "restrict to functions matching this regexp (debugging; evidence not written)")
	noSelftest := fs.Bool("noselftest", false, "skip the mutant corpus")
	fs.Parse(args[min(1, len(args)):])
	if len(args) < 1 {
		fmt.Fprintln(os.Stderr, "usage: govc check <property> [--tier quick|thorough]")
		return 2
	}
	id := args[0]
	start := time.Now()
	seed, _ := strconv.Atoi(envOr("VERIF_SEED", "1"))
	verif := envOr("GOVC_VERIF", "/verif")
	props, err := loadProps(verif)
	if err != nil {
		fmt.Fprintln(os.Stderr, "props.json:", err)
		return 2
	}
	pd := props[id]
	if pd == nil {
		fmt.Fprintf(os.Stderr, "property %s has no check\n", id)
		return 2
	}
	e := mustLoad()
	if len(e.specs.Errors) > 0 {
		fmt.Println("ENGINE-ERROR: contract files do not parse")
		return 2
	}
	cfg := &solverCfg{quickMs: 4000, fullMs: 20000, workers: 16, seed: seed, keepDir: *keep}
	if *tier == "thorough" {
		cfg.quickMs, cfg.fullMs, cfg.allAgree = 10000, 60000, false
	}
	rep := &report{id: id, tier: *tier, seed: seed, eng: e, pd: pd, cfg: cfg, verif: verif}
	rep.loadKnown()

	// 1. functions under contract for this property
	var targets []string
	sweepSet := map[string]bool{}
	var keys []string
	for k := range e.funcs {
		keys = append(keys, k)
	}
	sort.Strings(keys)
	var onlyRe *regexp.Regexp
	if *only != "" {
		onlyRe = regexp.MustCompile(*only)
	}
	var sweepRe, exceptRe []*regexp.Regexp
	for _, s := range pd.Sweep {
		sweepRe = append(sweepRe, regexp.MustCompile("^(?:"+s+")$"))
	}
	for _, s := range pd.SweepExcept {
		exceptRe = append(exceptRe, regexp.MustCompile("^(?:"+s+")$"))
	}
	listed := map[string]bool{}
	if pd.SweepList != "" {
		data, err := os.ReadFile(filepath.Join(verif, pd.SweepList))
		if err != nil {
			fmt.Fprintln(os.Stderr, "sweep list:", err)
			return 2
		}
		for _, ln := range strings.Split(string(data), "\n") {
			f := strings.Fields(ln)
			if len(f) >= 1 {
				listed[f[0]] = true
				if e.funcs[f[0]] == nil {
					rep.undecided = append(rep.undecided, f[0]+": function not found (renamed or removed)")
				}
			}
		}
	}
	for _, k := range keys {
		fn := e.funcs[k]
		if onlyRe != nil && !onlyRe.MatchString(k) {
			continue
		}
		if len(fn.Blocks) == 0 {
			continue
		}
		tagged := false
		con := e.contractFor(fn)
		if sp := e.special[k]; sp != nil {
			con = sp.con
		}
		if con != nil && !con.Trusted && contractTagged(con, id) {
			tagged = true
		}
		swept := listed[k]
		for _, re := range sweepRe {
			if re.MatchString(k) {
				swept = true
			}
		}
		for _, re := range exceptRe {
			if re.MatchString(k) {
				swept = false
			}
		}
		if con != nil && con.Trusted {
			continue // assumed contract: the body is not verified (listed as an assumption)
		}
		if tagged || swept {
			targets = append(targets, k)
			if swept {
				sweepSet[k] = true
			}
		}
	}
	promoted := map[string]map[int]*ssa.Const{}
	if len(pd.ScopeFiles) > 0 {
		inScope := map[string]bool{}
		for _, f := range pd.ScopeFiles {
			inScope[f] = true
		}
		tset := map[string]bool{}
		for _, k := range targets {
			tset[k] = true
		}
		for _, k := range keys {
			fn := e.funcs[k]
			if len(fn.Blocks) > 0 && inScope[e.relFile(fn)] && !tset[k] {
				rep.notUnder = append(rep.notUnder, k)
			}
		}
		// functions that appeared in the scope files after the sweep list was pinned are not checked:
		// say so on every run (their undischarged obligations could not be told from missing
		// preconditions, so they are not alarms)
		if pd.KnownUnlisted != "" && onlyRe == nil {
			path := filepath.Join(verif, pd.KnownUnlisted)
			if os.Getenv("GOVC_WRITE_UNLISTED") != "" {
				os.WriteFile(path, []byte(strings.Join(rep.notUnder, "\n")+"\n"), 0o644)
			}
			known := map[string]bool{}
			if data, err := os.ReadFile(path); err == nil {
				for _, ln := range strings.Split(string(data), "\n") {
					if ln = strings.TrimSpace(ln); ln != "" {
						known[ln] = true
					}
				}
				for _, k := range rep.notUnder {
					if known[k] {
						continue
					}
					// a new function that a swept, unannotated entry function calls unconditionally (in
					// its entry block) with its own parameters and constants receives exactly the inputs
					// that function receives: it is checked like a swept function, with those constants
					if caller, consts := e.entryEquivalent(e.funcs[k], sweepSet); caller != "" {
						fmt.Printf("NOTE property=%s new function %s (%s) is checked as part of the sweep: %s passes it its own parameters unconditionally\n", id, k, e.relFile(e.funcs[k]), caller)
						targets = append(targets, k)
						sweepSet[k] = true
						promoted[k] = consts
						continue
					}
					fmt.Printf("NOTE property=%s new function %s (%s) is not in the pinned sweep list: it is not checked by this sweep\n", id, k, e.relFile(e.funcs[k]))
					rep.newFuncs = append(rep.newFuncs, k)
				}
			}
		}
	}
	// contracts tagged with this property whose function no longer exists: undecided
	for full, con := range e.specs.Contracts {
		if con.Trusted || !contractTagged(con, id) {
			continue
		}
		if e.funcs[pkgShort(con.Pkg)+"."+con.Key] == nil {
			rep.undecided = append(rep.undecided, fmt.Sprintf("%s: function not found (contract no longer attaches)", full))
		}
	}
	// 2. verify
	type job struct {
		key string
		res *fnResult
	}
	jobs := make([]*job, len(targets))
	sem := make(chan struct{}, 4)
	done := make(chan struct{})
	for i, k := range targets {
		jobs[i] = &job{key: k}
		go func(j *job) {
			sem <- struct{}{}
			defer func() { <-sem; done <- struct{}{} }()
			// every safety and call-site obligation of a function verified for this property is
			// a supporting obligation of the property (a failed one would make later ones vacuous)
			opts := &fnOpts{houdini: true, props: []string{id}, spec: e.special[j.key], paramConst: promoted[j.key]}
			if pd.Frames && sweepSet[j.key] {
				opts.frames, opts.noSafety, opts.props = true, true, nil
			}
			j.res = e.genFunc(e.funcs[j.key], opts, cfg)
		}(jobs[i])
	}
	for range targets {
		<-done
	}
	// lemmas routed to this property
	for _, lem := range e.specs.Lemmas {
		if hasProp(lem.Props, id) && (onlyRe == nil || onlyRe.MatchString("lemma."+lem.Name)) {
			jobs = append(jobs, &job{key: "lemma." + lem.Name, res: e.verifyLemma(lem, []string{id})})
		}
	}
	// collect obligations of this property
	var obs []*Oblig
	for _, j := range jobs {
		res := j.res
		fe := funcEvidence{Name: res.key, SrcHash: res.srcHash, Loops: res.loops, Inferred: res.inferred, Status: "ok"}
		if res.err != "" {
			fe.Status = res.err
			rep.undecided = append(rep.undecided, res.key+": "+res.err)
			rep.funcs = append(rep.funcs, fe)
			continue
		}
		if res.attachErr != "" {
			fe.Status = "contract does not attach: " + res.attachErr
			rep.undecided = append(rep.undecided, res.key+": contract does not attach: "+res.attachErr)
			rep.funcs = append(rep.funcs, fe)
			continue
		}
		for _, d := range res.dropped {
			fe.Status = "loop invariant dropped (does not attach to the current loop): " + d
			fmt.Printf("NOTE property=%s %s: loop invariant dropped, it does not attach to the current loop: %s\n", id, res.key, d)
		}
		for _, o := range res.obligs {
			mine := hasProp(o.Props, id)
			if !mine {
				continue
			}
			obs = append(obs, o)
		}
		for _, cv := range res.covers {
			rep.covers = append(rep.covers, cv)
		}
		for _, k := range res.usedTrusted {
			rep.trusted[k] = true
		}
		for _, k := range res.uncontracted {
			rep.uncontracted[k] = true
		}
		rep.results = append(rep.results, res)
		rep.funcs = append(rep.funcs, fe)
	}
	solveObligs(obs, cfg)
	solveObligs(rep.covers, cfg)
	rep.obligs = obs
	// per-function counts
	cnt := map[string][2]int{}
	for _, o := range obs {
		c := cnt[o.Fn]
		c[0]++
		if o.Status == "discharged" {
			c[1]++
		}
		cnt[o.Fn] = c
	}
	for i := range rep.funcs {
		c := cnt[rep.funcs[i].Name]
		rep.funcs[i].Obligations, rep.funcs[i].Discharged = c[0], c[1]
	}
	// 3. special analyses
	for _, sp := range pd.Special {
		rep.runSpecial(sp)
	}
	// 3b. self-test: must-fail / must-pass corpus (two canaries in the quick tier, all in thorough)
	if !*noSelftest && onlyRe == nil {
		n := 2
		if *tier == "thorough" {
			n = 0
		}
		rep.selftest = selftestFor(id, n, envOr("GOVC_REPO", "/repo"), verif)
	}
	// 4. verdicts
	rep.onlyMode = onlyRe != nil
	code := rep.verdicts()
	if rep.structFail && code == 0 {
		code = 1
	}
	rep.wall = time.Since(start).Seconds()
	if onlyRe == nil {
		if err := rep.writeEvidence(); err != nil {
			fmt.Fprintln(os.Stderr, "evidence:", err)
			return 2
		}
	}
	return code
}

type report struct {
	id, tier     string
	seed         int
	eng          *Engine
	pd           *propDef
	cfg          *solverCfg
	verif        string
	obligs       []*Oblig
	covers       []*Oblig
	results      []*fnResult
	funcs        []funcEvidence
	undecided    []string
	trusted      map[string]bool
	uncontracted map[string]bool
	known        []knownFinding
	knownHit     []string
	knownGone    []string
	violations   []string
	extraObl     int // obligations from special analyses (no solver)
	extraOK      int
	extraNotes   []string
	extraSamples []any
	wall         float64
	engineErr    []string
	selftest     map[string]any
	notUnder     []string
	newFuncs     []string // in-scope functions that are neither swept nor in the known-unlisted file
	structFail   bool
	onlyMode     bool
}

func (r *report) loadKnown() {
	r.trusted = map[string]bool{}
	r.uncontracted = map[string]bool{}
	data, err := os.ReadFile(filepath.Join(r.verif, "known_findings.json"))
	if err != nil {
		return
	}
	var kf knownFile
	if json.Unmarshal(data, &kf) == nil {
		r.known = kf.Findings
	}
}

func (r *report) matchKnown(name string) *knownFinding {
	for i := range r.known {
		k := &r.known[i]
		if k.Property == r.id && k.Status == "open" && strings.HasPrefix(name, k.Obligation) {
			return k
		}
	}
	return nil
}

func (r *report) verdicts() int {
	code := 0
	hit := map[string]bool{}
	replayDir := filepath.Join(r.verif, "replays", r.id)
	for _, o := range r.obligs {
		if o.Status == "discharged" {
			continue
		}
		if k := r.matchKnown(o.Name); k != nil {
			if !hit[k.Obligation] {
				hit[k.Obligation] = true
				fmt.Printf("KNOWN-FINDING: property=%s %s (%s)\n", r.id, k.What, k.Obligation)
				r.knownHit = append(r.knownHit, k.Obligation)
			}
			continue
		}
		os.MkdirAll(replayDir, 0o755)
		path, reproduced := r.replay(o, replayDir)
		suffix := ""
		if !reproduced {
			suffix = " no-failing-input-found"
		}
		fmt.Printf("VIOLATION property=%s replay=%s obligation=%s at=%s status=%s%s\n", r.id, path, o.Name, o.PosStr, o.Status, suffix)
		r.violations = append(r.violations, o.Name)
		code = 1
	}
	for _, k := range r.known {
		if k.Property == r.id && k.Status == "open" && !hit[k.Obligation] {
			fmt.Printf("KNOWN-FINDING-GONE: property=%s %s\n", r.id, k.Obligation)
			r.knownGone = append(r.knownGone, k.Obligation)
		}
	}
	for _, u := range r.undecided {
		fmt.Printf("UNDECIDED property=%s %s\n", r.id, u)
	}
	for _, cv := range r.covers {
		if cv.Status == "unsat" {
			// a precondition that no input satisfies makes every obligation vacuous
			fmt.Printf("ENGINE-ERROR: vacuous precondition: %s (%s)\n", cv.Name, cv.Status)
			r.engineErr = append(r.engineErr, "vacuous precondition "+cv.Name)
			if code == 0 {
				code = 2
			}
		}
	}
	total := len(r.obligs) + r.extraObl
	if total < r.pd.MinObligs && len(r.undecided) == 0 && !r.onlyMode {
		fmt.Printf("ENGINE-ERROR: %d obligations generated, census minimum is %d\n", total, r.pd.MinObligs)
		r.engineErr = append(r.engineErr, "obligation count below census")
		if code == 0 {
			code = 2
		}
	}
	disc := r.extraOK
	for _, o := range r.obligs {
		if o.Status == "discharged" {
			disc++
		}
	}
	fmt.Printf("property %s tier %s: %d obligations, %d discharged, %d violations, %d known findings, %d undecided\n",
		r.id, r.tier, total, disc, len(r.violations), len(r.knownHit), len(r.undecided))
	return code
}

// replay writes a replay file for a failed obligation; returns its path and whether the failure
// was reproduced on the real code.
func (r *report) replay(o *Oblig, dir string) (string, bool) {
	name := fileSafe.ReplaceAllString(o.Name, "_")
	path := filepath.Join(dir, name+".txt")
	var sb strings.Builder
	fmt.Fprintf(&sb, "property: %s\nobligation: %s\nfunction: %s\nat: %s\nkind: %s\nclause: %s\nstatus: %s (solver %s, %.2fs)\n", r.id, o.Name, o.Fn, o.PosStr, o.Kind, o.Detail, o.Status, o.Solver, o.Time)
	reproduced := false
	if o.Status == "sat" && os.Getenv("GOVC_NOREPLAY") == "" {
		rr := r.eng.replayObligation(o, r.cfg)
		sb.WriteString(rr.text)
		reproduced = rr.reproduced
	} else {
		sb.WriteString("no counterexample: every solver answered unknown/timeout\n")
	}
	fmt.Fprintf(&sb, "\nsolver output:\n%s\n", o.Output)
	qpath := filepath.Join(dir, name+".smt2")
	os.WriteFile(qpath, []byte(o.ctx.queryText(o, true)), 0o644)
	fmt.Fprintf(&sb, "query: %s\n", qpath)
	os.WriteFile(path, []byte(sb.String()), 0o644)
	return path, reproduced
}

func (r *report) writeEvidence() error {
	total := len(r.obligs) + r.extraObl
	disc := r.extraOK
	byBackend := map[string]int{}
	var solverTime float64
	type slow struct {
		Name string  `json:"obligation"`
		Secs float64 `json:"seconds"`
		By   string  `json:"solver"`
	}
	var slows []slow
	for _, o := range r.obligs {
		solverTime += o.Time
		if o.Status == "discharged" {
			disc++
			byBackend[o.Solver]++
		}
		slows = append(slows, slow{o.Name, round3(o.Time), o.Solver})
	}
	sort.Slice(slows, func(i, j int) bool { return slows[i].Secs > slows[j].Secs })
	if len(slows) > 5 {
		slows = slows[:5]
	}
	var samples []any
	sampleDir := filepath.Join(r.verif, "evidence", "samples", r.id)
	os.RemoveAll(sampleDir)
	os.MkdirAll(sampleDir, 0o755)
	step := max(1, len(r.obligs)/4)
	for i := 0; i < len(r.obligs) && len(samples) < 4; i += step {
		o := r.obligs[i]
		p := filepath.Join(sampleDir, fileSafe.ReplaceAllString(o.Name, "_")+".smt2")
		os.WriteFile(p, []byte(o.ctx.queryText(o, true)), 0o644)
		samples = append(samples, map[string]any{"obligation": o.Name, "at": o.PosStr, "kind": o.Kind, "clause": o.Detail, "status": o.Status, "solver": o.Solver, "smt2": p})
	}
	samples = append(samples, r.extraSamples...)
	if len(samples) == 0 {
		samples = append(samples, "no obligations generated")
	}
	var trusted []string
	for k := range r.trusted {
		trusted = append(trusted, "assumed contract: "+k)
	}
	sort.Strings(trusted)
	trusted = append([]string{"govc VC generator (/verif/engine) and golang.org/x/tools/go/ssa v0.29.0", "z3 4.8.12, z3-new 5.1.0, cvc5 1.0.3"}, trusted...)
	var unc []string
	for k := range r.uncontracted {
		unc = append(unc, k)
	}
	sort.Strings(unc)
	level := "proof"
	if len(r.undecided) > 0 || disc < total || total == 0 {
		level = "other"
	}
	assumptions := []string{
		"GOARCH=amd64: int is 64 bits; machine arithmetic is modelled with explicit wrap-around, not treated as mathematical",
		"len and cap of strings and slices are below 2^56; allocation failure, stack overflow and GC are not modelled",
		"values are acyclic; goroutines/channels outside the modelled subset",
		"calls to functions without a contract havoc every heap the callee may write (syntactic mod-set); their results are arbitrary type-valid values",
		"float64 is an uninterpreted sort outside functions flagged fp (no floating-point value reasoning)",
	}
	for _, a := range r.eng.scanAssumptions() {
		assumptions = append(assumptions, a)
	}
	cov := map[string]any{
		"obligations":                   total,
		"discharged":                    disc,
		"checker_cmd":                   fmt.Sprintf("bin/govc check %s --tier %s", r.id, r.tier),
		"trusted_base":                  trusted,
		"functions_under_contract":      r.funcs,
		"by_backend":                    byBackend,
		"solver_time_s":                 round3(solverTime),
		"slowest":                       slows,
		"undecided":                     r.undecided,
		"known_findings":                r.knownHit,
		"known_findings_gone":           r.knownGone,
		"uncontracted_callees_havocked": unc,
		"samples":                       samples,
		"explanation":                   r.pd.Note,
		"vacuity":                       map[string]any{"cover_queries": len(r.covers), "cover_sat": countStatus(r.covers, "sat"), "census_minimum": r.pd.MinObligs},
		"notes":                         r.extraNotes,
		"violating_obligations":         r.violations,
		"not_under_contract":            r.notUnder,
		"new_functions_not_checked":     r.newFuncs,
		"engine_errors":                 r.engineErr,
	}
	if r.selftest != nil {
		cov["selftest"] = r.selftest
	}
	ev := map[string]any{
		"property_id": r.id,
		"tier":        r.tier,
		"seed":        r.seed,
		"level":       level,
		"coverage":    cov,
		"assumptions": assumptions,
		"wall_s":      round3(r.wall),
		"violations":  len(r.violations),
	}
	data, err := json.MarshalIndent(ev, "", " ")
	if err != nil {
		return err
	}
	os.MkdirAll(filepath.Join(r.verif, "evidence"), 0o755)
	return os.WriteFile(filepath.Join(r.verif, "evidence", r.id+".json"), data, 0o644)
}

func countStatus(obs []*Oblig, st string) int {
	n := 0
	for _, o := range obs {
		if o.Status == st {
			n++
		}
	}
	return n
}

func round3(f float64) float64 { return float64(int(f*1000+0.5)) / 1000 }

// scanAssumptions lists every assumed item of the contract files (axioms, trusted/external
// contracts, assume clauses).
func (e *Engine) scanAssumptions() []string {
	var out []string
	for _, ax := range e.specs.Axioms {
		out = append(out, fmt.Sprintf("axiom %s (%s:%d)", ax.Name, filepath.Base(ax.File), ax.Line))
	}
	n := 0
	for _, con := range e.specs.Contracts {
		if con.Trusted {
			n++
		}
		for _, cl := range con.Clauses {
			if cl.Kind == "assume" {
				out = append(out, fmt.Sprintf("assume in %s (%s:%d): %s", con.Key, filepath.Base(cl.File), cl.Line, cl.Text))
			}
			if cl.Kind == "defines" {
				out = append(out, fmt.Sprintf("abstraction (determinism assumed) in %s (%s:%d): %s", con.Key, filepath.Base(cl.File), cl.Line, cl.Text))
			}
		}
	}
	sort.Strings(out)
	out = append(out, fmt.Sprintf("%d external/trusted contracts in total (those used are listed in trusted_base)", n))
	return out
}

// entryEquivalent: is fn called, in the entry block of a swept function without a contract, with arguments
// that are that function's own parameters (each at most once) or constants? Returns the caller and the
// constant bindings by parameter index.
func (e *Engine) entryEquivalent(fn *ssa.Function, swept map[string]bool) (string, map[int]*ssa.Const) {
	if fn == nil || e.contractFor(fn) != nil {
		return "", nil
	}
	var callers []string
	for k := range swept {
		callers = append(callers, k)
	}
	sort.Strings(callers)
	for _, k := range callers {
		f := e.funcs[k]
		if f == nil || len(f.Blocks) == 0 || e.contractFor(f) != nil {
			continue
		}
		for _, in := range f.Blocks[0].Instrs {
			ci, ok := in.(ssa.CallInstruction)
			if !ok {
				continue
			}
			cc := ci.Common()
			if cc.IsInvoke() || cc.StaticCallee() != fn {
				continue
			}
			consts := map[int]*ssa.Const{}
			used := map[*ssa.Parameter]bool{}
			good := len(cc.Args) == len(fn.Params)
			for i, a := range cc.Args {
				switch x := a.(type) {
				case *ssa.Parameter:
					if used[x] {
						good = false
					}
					used[x] = true
				case *ssa.Const:
					consts[i] = x
				default:
					good = false
				}
			}
			if good {
				return k, consts
			}
		}
	}
	return "", nil
}

func (r *report) runSpecial(name string) {
	switch name {
	case "next-skeleton":
		r.nextSkeleton()
	case "ambient-authority":
		r.ambientAuthority()
	case "globals-write":
		r.globalsWrite()
		r.compiledStateWrites()
	case "shared-constants":
		r.sharedConstantCapacity()
	default:
		r.extraNotes = append(r.extraNotes, "unknown special analysis "+name)
	}
}
