package main

import (
	"fmt"
	"math/big"
	"strings"
)

// SMT terms are plain s-expression strings.

func app(f string, args ...string) string {
	if len(args) == 0 {
		return f
	}
	return "(" + f + " " + strings.Join(args, " ") + ")"
}

func and(xs ...string) string {
	var ys []string
	for _, x := range xs {
		if x == "true" || x == "" {
			continue
		}
		if x == "false" {
			return "false"
		}
		ys = append(ys, x)
	}
	switch len(ys) {
	case 0:
		return "true"
	case 1:
		return ys[0]
	}
	return app("and", ys...)
}

func or(xs ...string) string {
	var ys []string
	for _, x := range xs {
		if x == "false" || x == "" {
			continue
		}
		if x == "true" {
			return "true"
		}
		ys = append(ys, x)
	}
	switch len(ys) {
	case 0:
		return "false"
	case 1:
		return ys[0]
	}
	return app("or", ys...)
}

func not(x string) string {
	switch x {
	case "true":
		return "false"
	case "false":
		return "true"
	}
	if strings.HasPrefix(x, "(not ") && balancedTail(x[5:len(x)-1]) {
		return x[5 : len(x)-1]
	}
	return app("not", x)
}

// balancedTail reports whether s is one complete s-expression (or atom).
func balancedTail(s string) bool {
	depth := 0
	for i, ch := range s {
		switch ch {
		case '(':
			depth++
		case ')':
			depth--
			if depth == 0 && i != len(s)-1 {
				return false
			}
		case ' ':
			if depth == 0 {
				return false
			}
		}
	}
	return depth == 0
}

func implies(a, b string) string {
	if a == "true" {
		return b
	}
	if a == "false" || b == "true" {
		return "true"
	}
	return app("=>", a, b)
}

func ite(c, a, b string) string {
	if c == "true" {
		return a
	}
	if c == "false" {
		return b
	}
	if a == b {
		return a
	}
	return app("ite", c, a, b)
}

func eq(a, b string) string {
	if a == b {
		return "true"
	}
	return app("=", a, b)
}

func intLit(n int64) string {
	if n < 0 {
		if n == -n { // MinInt64
			return "(- 9223372036854775808)"
		}
		return fmt.Sprintf("(- %d)", -n)
	}
	return fmt.Sprintf("%d", n)
}

func bigLit(n *big.Int) string {
	if n.Sign() < 0 {
		return "(- " + new(big.Int).Neg(n).String() + ")"
	}
	return n.String()
}

func sel(a, i string) string        { return app("select", a, i) }
func sto(a, i, v string) string     { return app("store", a, i, v) }
func add(a, b string) string        { return app("+", a, b) }
func sub(a, b string) string        { return app("-", a, b) }
func le(a, b string) string         { return app("<=", a, b) }
func lt(a, b string) string         { return app("<", a, b) }
func sel2(h, r, i string) string    { return sel(sel(h, r), i) }
func sto2(h, r, i, v string) string { return sto(h, r, sto(sel(h, r), i, v)) }

func forall(vars [][2]string, body string, pats ...string) string {
	if len(vars) == 0 {
		return body
	}
	var sb strings.Builder
	sb.WriteString("(forall (")
	for _, v := range vars {
		fmt.Fprintf(&sb, "(%s %s)", v[0], v[1])
	}
	sb.WriteString(") ")
	if len(pats) > 0 {
		sb.WriteString("(! ")
		sb.WriteString(body)
		for _, p := range pats {
			sb.WriteString(" :pattern (")
			sb.WriteString(p)
			sb.WriteString(")")
		}
		sb.WriteString(")")
	} else {
		sb.WriteString(body)
	}
	sb.WriteString(")")
	return sb.String()
}

func exists(vars [][2]string, body string) string {
	if len(vars) == 0 {
		return body
	}
	var sb strings.Builder
	sb.WriteString("(exists (")
	for _, v := range vars {
		fmt.Fprintf(&sb, "(%s %s)", v[0], v[1])
	}
	sb.WriteString(") ")
	sb.WriteString(body)
	sb.WriteString(")")
	return sb.String()
}

const (
	minInt64S = "(- 9223372036854775808)"
	maxInt64S = "9223372036854775807"
	two64S    = "18446744073709551616"
	maxLenS   = "72057594037927936" // 2^56: assumed bound on len/cap
)

// preludeDecls is emitted at the head of every query. Everything in it is part of the
// semantic model of the Go subset (DESIGN §2.3).
const preludeDecls = `(set-option :produce-models true)
(set-logic ALL)
(declare-sort Str 0)
(declare-sort F64 0)
(declare-datatypes ((Slice 0)) (((mk-slice (s-arr Int) (s-off Int) (s-len Int) (s-cap Int)))))
(declare-datatypes ((Val 0)) (((VNil) (VBool (vbool Bool)) (VInt (vint Int)) (VF64 (vf64 F64)) (VStr (vstr Str)) (VSlice (vslice Slice)) (VMap (vmap Int)) (VBig (vbig Int)) (VNum (vnum Str)) (VOther (vtype Int) (vpay Int)))))
(define-fun wrap64 ((x Int)) Int (- (mod (+ x 9223372036854775808) 18446744073709551616) 9223372036854775808))
(define-fun wrapadd64 ((x Int)) Int (ite (> x 9223372036854775807) (- x 18446744073709551616) (ite (< x (- 9223372036854775808)) (+ x 18446744073709551616) x)))
(define-fun wrap32 ((x Int)) Int (- (mod (+ x 2147483648) 4294967296) 2147483648))
(define-fun wrap16 ((x Int)) Int (- (mod (+ x 32768) 65536) 32768))
(define-fun wrap8 ((x Int)) Int (- (mod (+ x 128) 256) 128))
(define-fun wrapu64 ((x Int)) Int (mod x 18446744073709551616))
(define-fun wrapu32 ((x Int)) Int (mod x 4294967296))
(define-fun wrapu16 ((x Int)) Int (mod x 65536))
(define-fun wrapu8 ((x Int)) Int (mod x 256))
(define-fun tdiv ((x Int) (y Int)) Int (ite (>= x 0) (ite (> y 0) (div x y) (- (div x (- y)))) (ite (> y 0) (- (div (- x) y)) (div (- x) (- y)))))
(define-fun tmod ((x Int) (y Int)) Int (- x (* y (tdiv x y))))
(define-fun bclamp ((x Int)) Int (ite (and (<= 0 x) (<= x 255)) x 0))
(define-fun imin ((x Int) (y Int)) Int (ite (<= x y) x y))
(define-fun imax ((x Int) (y Int)) Int (ite (>= x y) x y))
(define-fun iabs ((x Int)) Int (ite (>= x 0) x (- x)))
(define-fun isign ((x Int)) Int (ite (> x 0) 1 (ite (< x 0) (- 1) 0)))
(declare-fun slen (Str) Int)
(declare-fun sat (Str Int) Int)
(declare-fun ssub (Str Int Int) Str)
(declare-fun scat (Str Str) Str)
(declare-fun str_lt (Str Str) Bool)
(declare-const str_empty Str)
(assert (= (slen str_empty) 0))
(declare-fun f64_add (F64 F64) F64)
(declare-fun f64_sub (F64 F64) F64)
(declare-fun f64_mul (F64 F64) F64)
(declare-fun f64_div (F64 F64) F64)
(declare-fun f64_neg (F64) F64)
(declare-fun f64_lt (F64 F64) Bool)
(declare-fun f64_le (F64 F64) Bool)
(declare-fun f64_eq (F64 F64) Bool)
(declare-fun f64_of_int (Int) F64)
(declare-fun f64_to_int (F64) Int)
(declare-fun f64_to_uint (F64) Int)
(declare-fun f64_lit (Int) F64)
(declare-fun bits_and (Int Int) Int)
(declare-fun bits_or (Int Int) Int)
(declare-fun bits_xor (Int Int) Int)
(declare-fun bits_shl (Int Int) Int)
(declare-fun bits_shr (Int Int) Int)
(define-fun pow2 ((n Int)) Int (ite (= n 0) 1 (ite (= n 1) 2 (ite (= n 2) 4 (ite (= n 3) 8 (ite (= n 4) 16 (ite (= n 5) 32 (ite (= n 6) 64 (ite (= n 7) 128 (ite (= n 8) 256 (ite (= n 9) 512 (ite (= n 10) 1024 (ite (= n 11) 2048 (ite (= n 12) 4096 (ite (= n 13) 8192 (ite (= n 14) 16384 (ite (= n 15) 32768 (ite (= n 16) 65536 (ite (= n 17) 131072 (ite (= n 18) 262144 (ite (= n 19) 524288 (ite (= n 20) 1048576 (ite (= n 21) 2097152 (ite (= n 22) 4194304 (ite (= n 23) 8388608 (ite (= n 24) 16777216 (ite (= n 25) 33554432 (ite (= n 26) 67108864 (ite (= n 27) 134217728 (ite (= n 28) 268435456 (ite (= n 29) 536870912 (ite (= n 30) 1073741824 (ite (= n 31) 2147483648 (ite (= n 32) 4294967296 (ite (= n 33) 8589934592 (ite (= n 34) 17179869184 (ite (= n 35) 34359738368 (ite (= n 36) 68719476736 (ite (= n 37) 137438953472 (ite (= n 38) 274877906944 (ite (= n 39) 549755813888 (ite (= n 40) 1099511627776 (ite (= n 41) 2199023255552 (ite (= n 42) 4398046511104 (ite (= n 43) 8796093022208 (ite (= n 44) 17592186044416 (ite (= n 45) 35184372088832 (ite (= n 46) 70368744177664 (ite (= n 47) 140737488355328 (ite (= n 48) 281474976710656 (ite (= n 49) 562949953421312 (ite (= n 50) 1125899906842624 (ite (= n 51) 2251799813685248 (ite (= n 52) 4503599627370496 (ite (= n 53) 9007199254740992 (ite (= n 54) 18014398509481984 (ite (= n 55) 36028797018963968 (ite (= n 56) 72057594037927936 (ite (= n 57) 144115188075855872 (ite (= n 58) 288230376151711744 (ite (= n 59) 576460752303423488 (ite (= n 60) 1152921504606846976 (ite (= n 61) 2305843009213693952 (ite (= n 62) 4611686018427387904 (ite (= n 63) 9223372036854775808 0)))))))))))))))))))))))))))))))))))))))))))))))))))))))))))))))))
(declare-fun enc_f64 (F64) Int)
(declare-fun dec_f64 (Int) F64)
(declare-fun enc_str (Str) Int)
(declare-fun dec_str (Int) Str)
(declare-fun enc_slice (Slice) Int)
(declare-fun dec_slice (Int) Slice)
(declare-fun enc_val (Val) Int)
(declare-fun dec_val (Int) Val)
(define-fun enc_bool ((b Bool)) Int (ite b 1 0))
(define-fun dec_bool ((x Int)) Bool (= x 1))
(define-fun validSlice ((s Slice)) Bool (and (<= 0 (s-arr s)) (<= 0 (s-off s)) (<= 0 (s-len s)) (<= (s-len s) (s-cap s)) (< (+ (s-off s) (s-cap s)) 72057594037927936) (=> (= (s-arr s) 0) (and (= (s-cap s) 0) (= (s-off s) 0)))))
(define-fun validVal ((v Val)) Bool (and (=> ((_ is VSlice) v) (validSlice (vslice v))) (=> ((_ is VMap) v) (<= 0 (vmap v))) (=> ((_ is VBig) v) (< 0 (vbig v))) (=> ((_ is VInt) v) (and (<= (- 9223372036854775808) (vint v)) (<= (vint v) 9223372036854775807))) (=> ((_ is VOther) v) (>= (vtype v) 100))))
(define-fun jsonVal ((v Val)) Bool (and (validVal v) (not ((_ is VOther) v)) (=> ((_ is VBig) v) (< 0 (vbig v)))))
; rune decoding of strings (abstract UTF-8 decoder, DESIGN §2.7)
(declare-fun pubval (Int) Int)
(declare-fun str1 (Int) Str)
(declare-fun srep (Int Int) Str)
(declare-fun str_of_bytes ((Array Int Int) Int Int) Str)
(declare-fun rwidth (Str Int) Int)
(declare-fun rdecode (Str Int) Int)
(declare-fun rcount (Str) Int)
(declare-fun ridx (Str Int) Int)
`

// preludeAxioms are quantified axioms of the model; each is included in a query only if one
// of the function symbols in its patterns occurs in the query (relevance filter).
var preludeAxioms = []string{
	`(assert (forall ((c Int)) (! (and (= (slen (str1 c)) 1) (= (sat (str1 c) 0) (bclamp c))) :pattern ((str1 c)))))`,
	`(assert (forall ((c Int) (n Int)) (! (=> (<= 0 n) (= (slen (srep c n)) n)) :pattern ((srep c n)))))`,
	`(assert (forall ((c Int) (n Int) (k Int)) (! (=> (and (<= 0 k) (< k n)) (= (sat (srep c n) k) (bclamp c))) :pattern ((sat (srep c n) k)))))`,
	`(assert (forall ((s Str) (i Int) (j Int) (m Int)) (! (=> (and (<= 0 i) (<= i m) (< m j) (<= j (slen s))) (= (sat (ssub s i j) (- m i)) (sat s m))) :pattern ((ssub s i j) (sat s m)))))`,
	`(assert (forall ((s Str) (a Int) (b Int) (c Int) (d Int)) (! (=> (and (<= 0 a) (<= a b) (<= b (slen s)) (<= 0 c) (<= c d) (<= d (- b a))) (= (ssub (ssub s a b) c d) (ssub s (+ a c) (+ a d)))) :pattern ((ssub (ssub s a b) c d)))))`,
	// decomposition of a string into decode steps: ridx(s,k) is the byte index of the k-th step
	`(assert (forall ((s Str)) (! (and (<= 0 (rcount s)) (<= (rcount s) (slen s)) (= (ridx s 0) 0) (= (ridx s (rcount s)) (slen s)) (=> (< 0 (slen s)) (< 0 (rcount s)))) :pattern ((rcount s)))))`,
	`(assert (forall ((s Str) (k Int)) (! (=> (and (<= 0 k) (< k (rcount s))) (and (<= 0 (ridx s k)) (< (ridx s k) (slen s)) (= (ridx s (+ k 1)) (+ (ridx s k) (rwidth s (ridx s k)))))) :pattern ((ridx s k)))))`,
	`(assert (forall ((s Str) (k Int) (j Int)) (! (=> (and (<= 0 k) (< k j) (<= j (rcount s))) (< (ridx s k) (ridx s j))) :pattern ((ridx s k) (ridx s j)))))`,
	`(assert (forall ((s Str)) (! (<= 0 (slen s)) :pattern ((slen s)))))`,
	`(assert (forall ((s Str) (i Int)) (! (and (<= 0 (sat s i)) (<= (sat s i) 255)) :pattern ((sat s i)))))`,
	`(assert (forall ((s Str) (i Int) (j Int)) (! (=> (and (<= 0 i) (<= i j) (<= j (slen s))) (= (slen (ssub s i j)) (- j i))) :pattern ((ssub s i j)))))`,
	`(assert (forall ((s Str) (i Int) (j Int) (k Int)) (! (=> (and (<= 0 i) (<= i j) (<= j (slen s)) (<= 0 k) (< k (- j i))) (= (sat (ssub s i j) k) (sat s (+ i k)))) :pattern ((sat (ssub s i j) k)))))`,
	`(assert (forall ((s Str)) (! (= (ssub s 0 (slen s)) s) :pattern ((ssub s 0 (slen s))))))`,
	`(assert (forall ((s Str) (i Int)) (! (=> (and (<= 0 i) (<= i (slen s))) (= (ssub s i i) str_empty)) :pattern ((ssub s i i)))))`,
	`(assert (forall ((s Str) (t Str)) (! (= (slen (scat s t)) (+ (slen s) (slen t))) :pattern ((scat s t)))))`,
	`(assert (forall ((s Str) (t Str) (k Int)) (! (= (sat (scat s t) k) (ite (< k (slen s)) (sat s k) (sat t (- k (slen s))))) :pattern ((sat (scat s t) k)))))`,
	`(assert (forall ((s Str)) (! (=> (= (slen s) 0) (= s str_empty)) :pattern ((slen s)))))`,
	// the empty string is the unit of concatenation (strings are identified by their content)
	`(assert (forall ((s Str)) (! (= (scat s str_empty) s) :pattern ((scat s str_empty)))))`,
	`(assert (forall ((s Str)) (! (= (scat str_empty s) s) :pattern ((scat str_empty s)))))`,
	`(assert (forall ((x F64)) (! (= (dec_f64 (enc_f64 x)) x) :pattern ((enc_f64 x)))))`,
	`(assert (forall ((x Str)) (! (= (dec_str (enc_str x)) x) :pattern ((enc_str x)))))`,
	`(assert (forall ((x Slice)) (! (= (dec_slice (enc_slice x)) x) :pattern ((enc_slice x)))))`,
	`(assert (forall ((x Val)) (! (= (dec_val (enc_val x)) x) :pattern ((enc_val x)))))`,
	`(assert (forall ((s Str) (i Int)) (! (=> (and (<= 0 i) (< i (slen s))) (and (<= 1 (rwidth s i)) (<= (rwidth s i) 4) (<= (+ i (rwidth s i)) (slen s)))) :pattern ((rwidth s i)))))`,
	`(assert (forall ((s Str) (i Int)) (! (and (<= 0 (rdecode s i)) (<= (rdecode s i) 1114111)) :pattern ((rdecode s i)))))`,
	`(assert (forall ((s Str) (i Int)) (! (=> (and (<= 0 i) (< i (slen s)) (< (sat s i) 128)) (and (= (rwidth s i) 1) (= (rdecode s i) (sat s i)))) :pattern ((rwidth s i)) :pattern ((rdecode s i)))))`,
	`(assert (forall ((s Str) (i Int)) (! (=> (and (<= 0 i) (< i (slen s)) (>= (sat s i) 128)) (>= (rdecode s i) 128)) :pattern ((rdecode s i)))))`,
	// decoding depends only on the bytes from the position on: decoding the suffix s[i:] at 0 is decoding s at i
	`(assert (forall ((s Str) (i Int) (j Int)) (! (=> (and (<= 0 i) (< i j) (= j (slen s))) (= (rwidth (ssub s i j) 0) (rwidth s i))) :pattern ((rwidth (ssub s i j) 0)))))`,
	`(assert (forall ((s Str) (i Int) (j Int)) (! (=> (and (<= 0 i) (< i j) (= j (slen s))) (= (rdecode (ssub s i j) 0) (rdecode s i))) :pattern ((rdecode (ssub s i j) 0)))))`,
}
