package main

import (
	"fmt"
	"go/constant"
	"go/token"
	"go/types"
	"math"
	"math/big"
	"sort"
	"strings"
	"sync"

	"golang.org/x/tools/go/ssa"
)

type heapState map[string]string

func (h heapState) clone() heapState {
	n := make(heapState, len(h))
	for k, v := range h {
		n[k] = v
	}
	return n
}

type addrKind int

const (
	aField    addrKind = iota // field f of struct object `base` (pointer identity): heap HF_T_f
	aElem                     // element idx of backing array arr: heap HE_E
	aCell                     // scalar cell at ref: heap HC_T
	aLocal                    // non-escaping local variable (versioned like a heap)
	aSub                      // field of a struct-valued location
	aArrIdx                   // element of an array-valued location
	aGlobal                   // package-level variable
	aWholeArr                 // a whole array kept in an element heap (local array variables)
)

type addr struct {
	kind   addrKind
	heap   string     // heap variable name (aField, aElem, aCell, aLocal, aGlobal)
	base   string     // object ref (aField, aCell) or array ref (aElem)
	idx    string     // element index (aElem, aArrIdx)
	parent *addr      // aSub, aArrIdx
	field  int        // aSub
	ty     types.Type // type of the location
	sinfo  *structSort
}

type Oblig struct {
	Block  *ssa.BasicBlock // block the obligation belongs to (context slicing)
	Name   string
	Kind   string
	Props  []string
	Goal   string
	Prefix int
	NDecl  int
	Pos    token.Pos
	PosStr string
	Fn     string
	Clause *Clause
	Status string // discharged, sat, unknown
	Solver string
	Time   float64
	Output string
	Cover  bool // a cover query: expected sat
	Detail string
	ctx    *FnCtx
}

type loopInfo struct {
	header   *ssa.BasicBlock
	blocks   map[*ssa.BasicBlock]bool
	ordinal  int // 1-based, in source order
	invs     []*Clause
	cands    []*candidate // houdini candidates
	writes   map[string]bool
	wlocals  map[string]bool
	headHeap heapState // heap state at the header after havoc
	preHeap  heapState
}

type candidate struct {
	text              string
	e                 Expr
	frame             string   // non-empty: automatic frame candidate for this heap (pre-existing objects unchanged)
	iterVar, iterName string   // candidate "named int variable == hidden iterator count"
	except            []string // frame candidates: parameter names whose objects are exempt
	alive             bool
}

type iterInfo struct {
	isString bool
	isMap    bool
	x        string // term of ranged value
	xty      types.Type
	posVar   string // local var name holding the position (string iterators) or count (maps)
	cntVar   string // string iterators: number of decode steps taken
	stable   bool   // map iterators: the map is not written inside the loop
}

type FnCtx struct {
	eng             *Engine
	fn              *ssa.Function
	con             *Contract
	key             string
	sorts           *sorts
	declSet         map[string]bool
	decls           []string
	ctx             []string
	obligs          []*Oblig
	vals            map[ssa.Value]string
	tuples          map[ssa.Value][]string
	addrs           map[ssa.Value]*addr
	heapSort        map[string]string
	heapOrder       []string
	entry           heapState
	out             map[*ssa.BasicBlock]heapState
	reach           map[*ssa.BasicBlock]string
	edges           map[[2]int]string
	loops           map[*ssa.BasicBlock]*loopInfo
	loopList        []*loopInfo
	order           []*ssa.BasicBlock
	nfresh          int
	locals          map[*ssa.Alloc]string
	iters           map[ssa.Value]*iterInfo
	closures        map[ssa.Value]*ssa.MakeClosure
	defers          []*ssa.Defer
	strlits         map[string]string
	knownHeaps      map[string]string // from a previous pass: declare all at entry
	knownLocals     map[string]string
	cur             heapState
	curBlock        *ssa.BasicBlock
	names           map[string]bool
	opts            *fnOpts
	sweep           bool // emit safety obligations
	usedContracts   map[string]bool
	usedExternal    map[string]bool
	notes           []string
	retCount        int
	jsonMode        bool
	nameCount       map[string]int
	prevHeap        map[string]string
	uncontracted    map[string]bool
	usedSpecFuncs   map[string]bool
	boundFuncs      map[ssa.Value]*ssa.Function
	state           *fnState
	axioms          []axiomInst
	usedAxioms      []string
	attachErr       string
	dropReturnHints bool
	callOrd         map[*ssa.Call]int
	callSnaps       map[int]heapState // state right after the K-th call (source order)
	lemmaHeapValid  bool
	usesStrLt       bool     // a byte-wise string comparison occurs: the order axioms on strings are relevant
	dropped         []string // written loop invariants that do not attach to the current loop
	requiresTerms   []string
	reqPrefix       int
	houdiniObs      []*houdiniOb
	pendingHavoc    []string
	finalized       bool
	lemmaUsesOnce   int
	using           map[string]bool
	modRefs         map[string][]string
	usedLemmaCalls  map[string]bool
	nclosures       int
	cellCache       map[string]*ssa.Alloc
	sobSeen         map[string]bool
	captured        map[*ssa.Alloc]bool
	retOrd          map[*ssa.Return]int
	volatile        map[string]bool
	volatileRefs    map[string][]string // heap -> objects whose array field is aliased by a slice
	extraGuard      string
	deferFlags      []string
	curBindings     []ssa.Value
	curCallee       *ssa.Function
	strConsts       map[string]bool
	usedLemmas      []string
	ctxBlock        []int
	ancCache        map[int]map[int]bool
	ancMu           sync.Mutex
	covers          []*Oblig
	readSnaps       map[string]heapState
	readSnapOrder   []string
	inAxiom         bool
	nglobals        int
}

type fnOpts struct {
	frames   bool // write-frame sweep (C05/C06)
	spec     *specialisation
	houdini  bool
	props    []string // properties to tag sweep obligations with
	noSafety bool
	// parameters bound to constants: a new function checked as part of a sweep because a swept entry
	// function calls it unconditionally with its own parameters and these constants
	paramConst map[int]*ssa.Const
}

func (c *FnCtx) fresh(prefix string) string {
	c.nfresh++
	return fmt.Sprintf("%s!%d", prefix, c.nfresh)
}

func (c *FnCtx) declare(name, srt string) string {
	if !c.declSet[name] {
		c.declSet[name] = true
		if srt == "Str" {
			if c.strConsts == nil {
				c.strConsts = map[string]bool{}
			}
			c.strConsts[name] = true
		}
		if (strings.HasPrefix(name, "HE_any@") || strings.HasPrefix(name, "HMV_string_any@")) && ((c.con != nil && c.con.Flags["heapvalid"]) || c.lemmaHeapValid) {
			// (only on request, flag heapvalid: one quantifier per heap version makes other proofs unstable)
			// type invariant of the value heaps: every stored element is a valid interface value
			idx := "Int"
			if strings.HasPrefix(name, "HMV_") {
				idx = "Str"
			}
			c.decls = append(c.decls, fmt.Sprintf("(declare-const %s %s)", name, srt))
			c.decls = append(c.decls, fmt.Sprintf("(assert (forall ((r Int) (i %s)) (! (validVal (select (select %s r) i)) :pattern ((select (select %s r) i)))))", idx, name, name))
			return name
		}
		if strings.HasPrefix(name, "HE_uint8@") {
			// type invariant of byte arrays: every element is a byte (stores are of byte-typed values)
			c.decls = append(c.decls, fmt.Sprintf("(declare-const %s %s)", name, srt))
			c.decls = append(c.decls, fmt.Sprintf("(assert (forall ((r Int) (i Int)) (! (and (<= 0 (select (select %s r) i)) (<= (select (select %s r) i) 255)) :pattern ((select (select %s r) i)))))", name, name, name))
			return name
		}
		c.decls = append(c.decls, fmt.Sprintf("(declare-const %s %s)", name, srt))
	}
	return name
}

func (c *FnCtx) declareFun(name string, args []string, res string) {
	if !c.declSet[name] {
		c.declSet[name] = true
		c.decls = append(c.decls, fmt.Sprintf("(declare-fun %s (%s) %s)", name, strings.Join(args, " "), res))
	}
}

func (c *FnCtx) assume(t string) {
	if t == "true" {
		return
	}
	c.ctx = append(c.ctx, t)
	b := -1
	if c.curBlock != nil {
		b = c.curBlock.Index
	}
	c.ctxBlock = append(c.ctxBlock, b)
}

// ancestorsOf: blocks from which b is reachable along non-back edges (including b).
func (c *FnCtx) ancestorsOf(b *ssa.BasicBlock) map[int]bool {
	c.ancMu.Lock()
	defer c.ancMu.Unlock()
	if c.ancCache == nil {
		c.ancCache = map[int]map[int]bool{}
	}
	if a, ok := c.ancCache[b.Index]; ok {
		return a
	}
	anc := map[int]bool{b.Index: true}
	stack := []*ssa.BasicBlock{b}
	for len(stack) > 0 {
		x := stack[len(stack)-1]
		stack = stack[:len(stack)-1]
		for _, p := range x.Preds {
			if c.isBackEdge(p, x) {
				continue
			}
			if !anc[p.Index] {
				anc[p.Index] = true
				stack = append(stack, p)
			}
		}
	}
	c.ancCache[b.Index] = anc
	return anc
}

func (c *FnCtx) assumeAt(guard, t string) { c.assume(implies(guard, t)) }

func (c *FnCtx) posStr(p token.Pos) string {
	if !p.IsValid() {
		return ""
	}
	ps := c.eng.fset.Position(p)
	f := ps.Filename
	if i := strings.LastIndex(f, "/repo/"); i >= 0 {
		f = f[i+6:]
	}
	return fmt.Sprintf("%s:%d", f, ps.Line)
}

// oblige records a proof obligation `guard => goal` and afterwards assumes it.
func (c *FnCtx) oblige(kind string, props []string, guard, goal string, pos token.Pos, cl *Clause, detail string) *Oblig {
	if goal == "true" || guard == "false" {
		return nil
	}
	// split conjunctions
	if parts := splitAnd(goal); len(parts) > 1 {
		var last *Oblig
		for _, p := range parts {
			last = c.oblige(kind, props, guard, p, pos, cl, detail)
		}
		return last
	}
	// push implications into the guard and skolemise universally quantified goals
	g, body := guard, goal
	for {
		if a, b, ok := splitImplies(body); ok {
			g = and(g, a)
			body = b
			continue
		}
		if vars, b, ok := splitForall(body); ok {
			ren := map[string]string{}
			for _, v := range vars {
				nn := c.fresh("sk_" + v[0])
				c.declare(nn, v[1])
				ren[v[0]] = nn
			}
			body = substSyms(b, ren)
			continue
		}
		if parts := splitAnd(body); len(parts) > 1 {
			var last *Oblig
			for _, p := range parts {
				last = c.oblige(kind, props, g, p, pos, cl, detail)
			}
			return last
		}
		break
	}
	// a string equality in goal position is proved extensionally (Str is identified by content)
	if h, args, ok := splitTop(body); ok && h == "=" && len(args) == 2 && (c.isStrTerm(args[0]) || c.isStrTerm(args[1])) {
		k := c.fresh("sk_ext")
		c.declare(k, "Int")
		lenEq := eq(app("slen", args[0]), app("slen", args[1]))
		chEq := implies(and(le("0", k), lt(k, app("slen", args[0]))), eq(app("sat", args[0], k), app("sat", args[1], k)))
		o1 := c.obligeRaw(kind, props, implies(g, lenEq), pos, cl, detail)
		_ = o1
		c.assume(implies(g, lenEq))
		o2 := c.obligeRaw(kind, props, implies(and(g, lenEq), chEq), pos, cl, detail)
		c.assume(implies(guard, goal))
		return o2
	}
	o := &Oblig{Block: c.curBlock, Kind: kind, Props: props, Goal: implies(g, body), Prefix: len(c.ctx), NDecl: -1, Pos: pos, PosStr: c.posStr(pos), Fn: c.key, Clause: cl, Detail: detail, ctx: c}
	base := fmt.Sprintf("%s/%s", c.key, kind)
	if cl != nil {
		base = fmt.Sprintf("%s/%s@L%d", c.key, kind, cl.Line)
	}
	c.nameCount[base]++
	o.Name = fmt.Sprintf("%s#%d", base, c.nameCount[base])
	c.obligs = append(c.obligs, o)
	c.assume(implies(guard, goal))
	return o
}

// strOfBytes builds the string with the bytes A[off .. off+n) and emits its defining axioms for
// this (ground) array term; nothing is quantified over array-sorted variables.
func (c *FnCtx) strOfBytes(arr, off, n string) string {
	t := app("str_of_bytes", arr, off, n)
	if strings.Contains(t, "!q") || c.sobSeen[t] {
		return t
	}
	c.sobSeen[t] = true
	c.assume(implies(le("0", n), eq(app("slen", t), n)))
	k := c.fresh("k")
	c.assume(forall([][2]string{{k, "Int"}}, implies(and(le("0", k), lt(k, n)), eq(app("sat", t, k), app("bclamp", sel(arr, add(off, k))))), app("sat", t, k)))
	m := c.fresh("m")
	c.assume(forall([][2]string{{m, "Int"}}, implies(and(le(off, m), lt(m, add(off, n))), eq(app("sat", t, sub(m, off)), app("bclamp", sel(arr, m)))), sel(arr, m)))
	return t
}

func (c *FnCtx) isStrTerm(t string) bool {
	if c.strConsts[t] || t == "str_empty" {
		return true
	}
	for _, p := range []string{"(ssub ", "(scat ", "(vstr ", "(vnum ", "(str_of_"} {
		if len(t) > len(p) && t[:len(p)] == p {
			return true
		}
	}
	return false
}

// obligeRaw records one obligation without splitting or assuming it.
func (c *FnCtx) obligeRaw(kind string, props []string, goal string, pos token.Pos, cl *Clause, detail string) *Oblig {
	o := &Oblig{Block: c.curBlock, Kind: kind, Props: props, Goal: goal, Prefix: len(c.ctx), NDecl: -1, Pos: pos, PosStr: c.posStr(pos), Fn: c.key, Clause: cl, Detail: detail, ctx: c}
	base := fmt.Sprintf("%s/%s", c.key, kind)
	if cl != nil {
		base = fmt.Sprintf("%s/%s@L%d", c.key, kind, cl.Line)
	}
	c.nameCount[base]++
	o.Name = fmt.Sprintf("%s#%d", base, c.nameCount[base])
	c.obligs = append(c.obligs, o)
	return o
}

func (c *FnCtx) heapDecl(name, srt string) {
	if _, ok := c.heapSort[name]; ok {
		return
	}
	c.heapSort[name] = srt
	c.heapOrder = append(c.heapOrder, name)
	// A heap first seen after entry: its entry version exists from the start.
	v0 := c.declare(name+"@0", srt)
	if c.entry != nil {
		if _, ok := c.entry[name]; !ok {
			c.entry[name] = v0
		}
	}
}

// heapGet returns the current term of a heap variable.
func (c *FnCtx) heapGet(name, srt string) string {
	c.heapDecl(name, srt)
	if c.volatile[name] {
		return c.heapHavoc(name)
	}
	if refs := c.volatileRefs[name]; len(refs) > 0 && strings.HasPrefix(srt, "(Array Int ") {
		// the listed objects hold an array that is aliased by a slice: each read sees arbitrary
		// contents there, every other object keeps its value
		old, ok := c.cur[name]
		if !ok {
			old = c.entry[name]
		}
		nv := c.fresh(name + "@")
		c.declare(nv, srt)
		r := c.fresh("r")
		var gs []string
		for _, ref := range refs {
			gs = append(gs, not(eq(r, ref)))
		}
		c.assume(forall([][2]string{{r, "Int"}}, implies(and(gs...), eq(sel(nv, r), sel(old, r))), sel(nv, r)))
		c.cur[name] = nv
		return nv
	}
	if t, ok := c.cur[name]; ok {
		return t
	}
	t := c.entry[name]
	c.cur[name] = t
	return t
}

func (c *FnCtx) heapSet(name, srt, term string) {
	c.heapDecl(name, srt)
	// name the new version to keep terms small
	nv := c.fresh(name + "@")
	c.declare(nv, srt)
	c.assume(eq(nv, term))
	c.cur[name] = nv
}

func (c *FnCtx) heapHavoc(name string) string {
	srt := c.heapSort[name]
	if old, ok := c.cur[name]; ok {
		c.prevHeap[name] = old
	}
	nv := c.fresh(name + "@")
	c.declare(nv, srt)
	c.cur[name] = nv
	return nv
}

// ---------- heap naming ----------

func heapElem(t types.Type) string { return "HE_" + typeKey(t) }
func heapCell(t types.Type) string { return "HC_" + typeKey(t) }
func heapField(st types.Type, i int) string {
	s := types.Unalias(st).Underlying().(*types.Struct)
	return "HF_" + typeKey(st) + "_" + s.Field(i).Name()
}
func heapMapDom(m *types.Map) string { return "HMD_" + typeKey(m.Key()) + "_" + typeKey(m.Elem()) }
func heapMapVal(m *types.Map) string { return "HMV_" + typeKey(m.Key()) + "_" + typeKey(m.Elem()) }
func heapMapLen(m *types.Map) string { return "HML_" + typeKey(m.Key()) + "_" + typeKey(m.Elem()) }

func (c *FnCtx) elemHeap(t types.Type) (string, string) {
	return heapElem(t), "(Array Int (Array Int " + c.sorts.sortOf(t) + "))"
}

func (c *FnCtx) alloc() string { return c.heapGet("ALLOC", "Int") }

// newRef allocates a fresh reference.
func (c *FnCtx) newRef() string {
	a := c.alloc()
	r := c.fresh("ref")
	c.declare(r, "Int")
	c.assume(eq(r, add(a, "1")))
	c.heapSet("ALLOC", "Int", r)
	return r
}

// ---------- values ----------

func (c *FnCtx) zero(t types.Type) string {
	t = types.Unalias(t)
	switch tt := t.Underlying().(type) {
	case *types.Basic:
		switch {
		case tt.Info()&types.IsBoolean != 0:
			return "false"
		case tt.Info()&types.IsInteger != 0:
			return "0"
		case tt.Info()&types.IsFloat != 0:
			return "(f64_lit 0)"
		case tt.Info()&types.IsString != 0:
			return "str_empty"
		case tt.Kind() == types.UnsafePointer:
			return "0"
		case tt.Kind() == types.UntypedNil:
			return "VNil"
		}
	case *types.Pointer, *types.Map, *types.Chan, *types.Signature:
		return "0"
	case *types.Slice:
		return "(mk-slice 0 0 0 0)"
	case *types.Interface:
		return "VNil"
	case *types.Array:
		return "((as const " + c.sorts.sortOf(t) + ") " + c.zero(tt.Elem()) + ")"
	case *types.Struct:
		si := c.sorts.structInfo(t)
		if len(si.fields) == 0 {
			return "mk-" + si.name
		}
		args := make([]string, len(si.fields))
		for i := range si.fields {
			args[i] = c.zero(tt.Field(i).Type())
		}
		return app("mk-"+si.name, args...)
	}
	unsupp("zero of %s", t)
	return ""
}

func (c *FnCtx) strLit(s string) string {
	if s == "" {
		return "str_empty"
	}
	if n, ok := c.strlits[s]; ok {
		return n
	}
	n := fmt.Sprintf("strlit!%d", len(c.strlits))
	c.strlits[s] = n
	c.declare(n, "Str")
	// the defining facts of a literal travel with its declaration: they hold in every query, whichever
	// block (or axiom) mentioned the literal first
	c.decls = append(c.decls, "(assert "+eq(app("slen", n), intLit(int64(len(s))))+")")
	if len(s) <= 64 {
		for i := 0; i < len(s); i++ {
			c.decls = append(c.decls, "(assert "+eq(app("sat", n, intLit(int64(i))), intLit(int64(s[i])))+")")
		}
	}
	return n
}

func (c *FnCtx) constTerm(k *ssa.Const) string {
	t := k.Type()
	if k.Value == nil {
		return c.zero(t)
	}
	switch k.Value.Kind() {
	case constant.Bool:
		if constant.BoolVal(k.Value) {
			return "true"
		}
		return "false"
	case constant.String:
		return c.strLit(constant.StringVal(k.Value))
	case constant.Int:
		if b, ok := types.Unalias(t).Underlying().(*types.Basic); ok && b.Info()&types.IsFloat != 0 {
			f, _ := constant.Float64Val(k.Value)
			return c.floatLit(f)
		}
		if i, ok := constant.Int64Val(k.Value); ok {
			return intLit(i)
		}
		if bi, ok := constant.Val(k.Value).(*big.Int); ok {
			return bigLit(bi)
		}
		unsupp("integer constant %s", k)
	case constant.Float:
		if b, ok := types.Unalias(t).Underlying().(*types.Basic); ok && b.Info()&types.IsInteger != 0 {
			if i, ok := constant.Int64Val(constant.ToInt(k.Value)); ok {
				return intLit(i)
			}
		}
		f, _ := constant.Float64Val(k.Value)
		return c.floatLit(f)
	}
	unsupp("constant %s", k)
	return ""
}

func (c *FnCtx) floatLit(f float64) string {
	bits := math.Float64bits(f)
	// f64_lit is an uninterpreted injection from bit patterns; 0 is +0.0
	return app("f64_lit", fmt.Sprintf("%d", bits))
}

// term returns the SMT term of an SSA value.
func (c *FnCtx) term(v ssa.Value) string {
	if t, ok := c.vals[v]; ok {
		return t
	}
	switch x := v.(type) {
	case *ssa.Const:
		return c.constTerm(x)
	case *ssa.Function:
		id := c.sorts.typeID(types.NewPointer(types.Typ[types.Int])) // dummy to keep ids stable
		_ = id
		n := "fn_" + sanitize(x.String())
		c.declare(n, "Int")
		c.vals[v] = n
		return n
	case *ssa.Global:
		// package-level variables are heap objects at small fixed references
		c.nglobals++
		n := "G_" + sanitize(x.Pkg.Pkg.Name()+"_"+x.Name())
		c.declare(n, "Int")
		c.ctx0(eq(n, intLit(int64(c.nglobals))))
		c.vals[v] = n
		return n
	case *ssa.Builtin:
		unsupp("builtin %s used as a value", x.Name())
	}
	if ad, ok := c.addrs[v]; ok {
		if fa, isField := v.(*ssa.FieldAddr); isField {
			// the address of a field escapes as a pointer value (offset, line = &e.Offset, &i.line).
			// Model: a fresh cell holding a copy of the field's current content; from here on the
			// field of that object is volatile (every later read of it yields an arbitrary value), so
			// writes made through the pointer are never contradicted by a stale field value. A direct
			// write to the field while the pointer is alive is not reflected in the cell (documented).
			et := fa.Type().(*types.Pointer).Elem()
			if _, isBasic := types.Unalias(et).Underlying().(*types.Basic); isBasic {
				root := ad.root()
				r := c.newRef()
				hn := heapCell(et)
				hs := "(Array Int " + c.sorts.sortOf(et) + ")"
				h := c.heapGet(hn, hs)
				c.heapSet(hn, hs, sto(h, r, c.load(ad)))
				if (root.kind == aField || root.kind == aCell) && root.base != "" {
					c.volatileRefs[root.heap] = append(c.volatileRefs[root.heap], root.base)
				} else {
					c.volatile[ad.rootHeap()] = true
				}
				c.vals[v] = r
				return r
			}
		}
		unsupp("address %s used as a value (%T)", v.Name(), v)
	}
	unsupp("no term for %s (%T)", v.Name(), v)
	return ""
}

func sanitize(s string) string {
	return nonAlnum.ReplaceAllString(s, "_")
}

func (c *FnCtx) setVal(v ssa.Value, t string) {
	// give the value a named constant (keeps terms small and models readable)
	srt := c.sorts.sortOf(v.Type())
	n := c.valName(v)
	c.declare(n, srt)
	c.assume(eq(n, t))
	c.vals[v] = n
}

func (c *FnCtx) valName(v ssa.Value) string {
	n := v.Name()
	if p, ok := v.(*ssa.Parameter); ok {
		n = "p_" + p.Name()
	} else if f, ok := v.(*ssa.FreeVar); ok {
		n = "fv_" + f.Name()
	} else {
		n = "v_" + n
	}
	n = sanitize(n)
	for c.names[n] {
		n += "_"
	}
	c.names[n] = true
	return n
}

// freshVal declares an unconstrained (but type-valid) constant for v.
func (c *FnCtx) freshVal(v ssa.Value) string {
	srt := c.sorts.sortOf(v.Type())
	n := c.valName(v)
	c.declare(n, srt)
	c.vals[v] = n
	c.assumeValid(n, v.Type())
	return n
}

// assumeValid asserts the type invariant of a term of Go type t.
func (c *FnCtx) assumeValid(term string, t types.Type) {
	if f := c.validity(term, t, 0); f != "true" {
		c.assume(f)
	}
}

func (c *FnCtx) validity(term string, t types.Type, depth int) string {
	t = types.Unalias(t)
	if lo, hi, ok := intRange(t); ok {
		return and(le(lo, term), le(term, hi))
	}
	if basicInfo(t)&types.IsString != 0 {
		return lt(app("slen", term), maxLenS) // values of string type (not every Str term) are bounded
	}
	switch tt := t.Underlying().(type) {
	case *types.Slice:
		return and(app("validSlice", term), le(app("s-arr", term), c.alloc()))
	case *types.Pointer, *types.Map:
		return and(le("0", term), le(term, c.alloc()))
	case *types.Interface:
		if c.jsonMode && isEmptyInterface(t) {
			return and(app("validVal", term), app("valRefsLE", term, c.alloc()))
		}
		return and(app("validVal", term), app("valRefsLE", term, c.alloc()))
	case *types.Struct:
		if depth > 3 {
			return "true"
		}
		si := c.sorts.structInfo(t)
		var parts []string
		for i := range si.fields {
			parts = append(parts, c.validity(app(si.fields[i], term), tt.Field(i).Type(), depth+1))
		}
		return and(parts...)
	}
	return "true"
}

// ---------- boxing ----------

func (c *FnCtx) box(t types.Type, term string) string {
	if isInterface(t) {
		return term
	}
	switch kindOf(t) {
	case kBool:
		return app("VBool", term)
	case kInt:
		return app("VInt", term)
	case kF64:
		return app("VF64", term)
	case kStr:
		return app("VStr", term)
	case kSlice:
		return app("VSlice", term)
	case kMap:
		return app("VMap", term)
	case kBig:
		return app("VBig", term)
	case kNum:
		return app("VNum", term)
	}
	id := c.sorts.typeID(t)
	srt := c.sorts.sortOf(t)
	return app("VOther", fmt.Sprint(id), c.encode(srt, term))
}

func (c *FnCtx) encode(srt, term string) string {
	if e := encPayload(srt, term); e != "" {
		return e
	}
	f := "enc_" + sanitize(srt)
	g := "dec_" + sanitize(srt)
	isArr := strings.HasPrefix(srt, "(Array")
	if !c.declSet[f] {
		c.declareFun(f, []string{srt}, "Int")
		c.declareFun(g, []string{"Int"}, srt)
		if !isArr {
			c.ctx0(forall([][2]string{{"x", srt}}, eq(app(g, app(f, "x")), "x"), app(f, "x")))
		}
	}
	if isArr && !strings.Contains(term, "!q") && !strings.HasPrefix(term, "any_") {
		// array-sorted payloads: the injectivity fact is stated per encoded term (quantifying over
		// array-sorted variables makes the solvers give up)
		c.assume(eq(app(g, app(f, term)), term))
	}
	return app(f, term)
}

func (c *FnCtx) decode(srt, term string) string {
	if e := decPayload(srt, term); e != "" {
		return e
	}
	c.encode(srt, c.zeroSort(srt))
	return app("dec_"+sanitize(srt), term)
}

func (c *FnCtx) zeroSort(srt string) string {
	// only used to force declaration of enc/dec; any term of the sort will do
	n := "any_" + sanitize(srt)
	c.declare(n, srt)
	return n
}

// ctx0 adds an axiom that must precede all obligations (inserted at the front).
func (c *FnCtx) ctx0(t string) {
	c.decls = append(c.decls, "(assert "+t+")")
}

func (c *FnCtx) unbox(t types.Type, v string) string {
	if isInterface(t) {
		return v
	}
	switch kindOf(t) {
	case kBool:
		return app("vbool", v)
	case kInt:
		return app("vint", v)
	case kF64:
		return app("vf64", v)
	case kStr:
		return app("vstr", v)
	case kSlice:
		return app("vslice", v)
	case kMap:
		return app("vmap", v)
	case kBig:
		return app("vbig", v)
	case kNum:
		return app("vnum", v)
	}
	return c.decode(c.sorts.sortOf(t), app("vpay", v))
}

// isType: the dynamic type of interface value v is (concrete) t, or implements interface t.
func (c *FnCtx) isType(t types.Type, v string) string {
	if isInterface(t) {
		return c.implements(t, v)
	}
	switch kindOf(t) {
	case kBool:
		return app("(_ is VBool)", v)
	case kInt:
		return app("(_ is VInt)", v)
	case kF64:
		return app("(_ is VF64)", v)
	case kStr:
		return app("(_ is VStr)", v)
	case kSlice:
		return app("(_ is VSlice)", v)
	case kMap:
		return app("(_ is VMap)", v)
	case kBig:
		return app("(_ is VBig)", v)
	case kNum:
		return app("(_ is VNum)", v)
	}
	id := c.sorts.typeID(t)
	return and(app("(_ is VOther)", v), eq(app("vtype", v), fmt.Sprint(id)))
}

func (c *FnCtx) implements(it types.Type, v string) string {
	iface := types.Unalias(it).Underlying().(*types.Interface)
	if iface.NumMethods() == 0 {
		return not(eq(v, "VNil"))
	}
	var alts []string
	for _, kt := range c.eng.kindTypes() {
		if types.Implements(kt.t, iface) {
			alts = append(alts, c.isType(kt.t, v))
		}
	}
	// VOther: uninterpreted predicate over type ids, with ground facts for the types known to
	// the two packages (closed world for their method sets).
	pred := "impl_" + typeKey(it)
	if !c.declSet[pred] {
		c.declareFun(pred, []string{"Int"}, "Bool")
		for _, nt := range c.eng.allNamedTypes() {
			for _, cand := range []types.Type{nt, types.NewPointer(nt)} {
				if isInterface(cand) {
					continue
				}
				if kindOf(cand) != kOther {
					continue
				}
				id := c.sorts.typeID(cand)
				if types.Implements(cand, iface) {
					c.ctx0(app(pred, fmt.Sprint(id)))
				} else {
					c.ctx0(not(app(pred, fmt.Sprint(id))))
				}
			}
		}
	}
	alts = append(alts, and(app("(_ is VOther)", v), app(pred, app("vtype", v))))
	return or(alts...)
}

// ---------- addresses ----------

func (c *FnCtx) addrOf(v ssa.Value) *addr {
	if a, ok := c.addrs[v]; ok {
		return a
	}
	pt, ok := types.Unalias(v.Type()).Underlying().(*types.Pointer)
	if !ok {
		unsupp("addrOf non-pointer %s", v.Name())
	}
	if _, ok := v.(*ssa.Global); ok {
		if _, isArr := types.Unalias(pt.Elem()).Underlying().(*types.Array); isArr {
			unsupp("global array %s", v.Name())
		}
	}
	// a pointer held in an SMT term
	p := c.term(v)
	if at, ok := types.Unalias(pt.Elem()).Underlying().(*types.Array); ok {
		// pointer to a local array: slice-shaped descriptor over the element heap
		hn, hs := c.elemHeap(at.Elem())
		c.heapDecl(hn, hs)
		return &addr{kind: aWholeArr, heap: hn, base: app("s-arr", p), ty: pt.Elem()}
	}
	return c.addrOfPtr(p, pt.Elem())
}

func (c *FnCtx) addrOfPtr(p string, elem types.Type) *addr {
	if _, ok := types.Unalias(elem).Underlying().(*types.Struct); ok && kindOf(types.NewPointer(elem)) != kBig {
		return &addr{kind: aField, base: p, field: -1, ty: elem, sinfo: c.sorts.structInfo(elem)}
	}
	if _, ok := types.Unalias(elem).Underlying().(*types.Array); ok {
		unsupp("pointer to array in a term")
	}
	name := heapCell(elem)
	c.heapDecl(name, "(Array Int "+c.sorts.sortOf(elem)+")")
	return &addr{kind: aCell, heap: name, base: p, ty: elem}
}

func (c *FnCtx) fieldAddr(a *addr, i int) *addr {
	st := types.Unalias(a.ty).Underlying().(*types.Struct)
	fty := st.Field(i).Type()
	if a.kind == aField && a.field == -1 {
		name := heapField(a.ty, i)
		c.heapDecl(name, "(Array Int "+c.sorts.sortOf(fty)+")")
		return &addr{kind: aField, heap: name, base: a.base, field: i, ty: fty}
	}
	return &addr{kind: aSub, parent: a, field: i, ty: fty, sinfo: c.sorts.structInfo(a.ty)}
}

func (c *FnCtx) load(a *addr) string {
	switch a.kind {
	case aField:
		if a.field == -1 { // whole struct object
			si := a.sinfo
			if len(si.fields) == 0 {
				return "mk-" + si.name
			}
			args := make([]string, len(si.fields))
			for i := range si.fields {
				args[i] = c.load(c.fieldAddr(a, i))
			}
			return app("mk-"+si.name, args...)
		}
		return sel(c.heapGet(a.heap, c.heapSort[a.heap]), a.base)
	case aCell:
		return sel(c.heapGet(a.heap, c.heapSort[a.heap]), a.base)
	case aElem:
		return sel2(c.heapGet(a.heap, c.heapSort[a.heap]), a.base, a.idx)
	case aLocal, aGlobal:
		return c.heapGet(a.heap, c.heapSort[a.heap])
	case aWholeArr:
		return sel(c.heapGet(a.heap, c.heapSort[a.heap]), a.base)
	case aSub:
		return app(a.sinfo.fields[a.field], c.load(a.parent))
	case aArrIdx:
		return sel(c.load(a.parent), a.idx)
	}
	panic("load")
}

func (c *FnCtx) store(a *addr, v string) {
	switch a.kind {
	case aField:
		if a.field == -1 {
			si := a.sinfo
			for i := range si.fields {
				c.store(c.fieldAddr(a, i), app(si.fields[i], v))
			}
			return
		}
		h := c.heapGet(a.heap, c.heapSort[a.heap])
		c.heapSet(a.heap, c.heapSort[a.heap], sto(h, a.base, v))
	case aCell:
		h := c.heapGet(a.heap, c.heapSort[a.heap])
		c.heapSet(a.heap, c.heapSort[a.heap], sto(h, a.base, v))
	case aElem:
		h := c.heapGet(a.heap, c.heapSort[a.heap])
		c.heapSet(a.heap, c.heapSort[a.heap], sto2(h, a.base, a.idx, v))
	case aLocal, aGlobal:
		c.heapSet(a.heap, c.heapSort[a.heap], v)
	case aWholeArr:
		h := c.heapGet(a.heap, c.heapSort[a.heap])
		c.heapSet(a.heap, c.heapSort[a.heap], sto(h, a.base, v))
	case aSub:
		old := c.load(a.parent)
		si := a.sinfo
		args := make([]string, len(si.fields))
		for i := range si.fields {
			if i == a.field {
				args[i] = v
			} else {
				args[i] = app(si.fields[i], old)
			}
		}
		c.store(a.parent, app("mk-"+si.name, args...))
	case aArrIdx:
		old := c.load(a.parent)
		c.store(a.parent, sto(old, a.idx, v))
	default:
		panic("store")
	}
}

// rootHeap returns the heap variable an address ultimately writes.
func (a *addr) rootHeap() string {
	for a.parent != nil {
		a = a.parent
	}
	return a.heap
}

func (a *addr) root() *addr {
	for a.parent != nil {
		a = a.parent
	}
	return a
}

// ---------- CFG preparation ----------

func (c *FnCtx) prepareCFG() {
	fn := c.fn
	// reachable blocks, RPO ignoring back edges
	dom := func(a, b *ssa.BasicBlock) bool { return a.Dominates(b) }
	visited := map[*ssa.BasicBlock]bool{}
	var post []*ssa.BasicBlock
	var dfs func(b *ssa.BasicBlock)
	dfs = func(b *ssa.BasicBlock) {
		visited[b] = true
		for _, s := range b.Succs {
			if dom(s, b) { // back edge
				continue
			}
			if !visited[s] {
				dfs(s)
			}
		}
		post = append(post, b)
	}
	dfs(fn.Blocks[0])
	for i := len(post) - 1; i >= 0; i-- {
		c.order = append(c.order, post[i])
	}
	index := map[*ssa.BasicBlock]int{}
	for i, b := range c.order {
		index[b] = i
	}
	// check: every non-back edge goes forward in the order
	for _, b := range c.order {
		for _, s := range b.Succs {
			if dom(s, b) {
				continue
			}
			if index[s] <= index[b] {
				unsupp("irreducible control flow at block %d -> %d", b.Index, s.Index)
			}
		}
	}
	// natural loops
	for _, b := range c.order {
		for _, s := range b.Succs {
			if !dom(s, b) {
				continue
			}
			li := c.loops[s]
			if li == nil {
				li = &loopInfo{header: s, blocks: map[*ssa.BasicBlock]bool{s: true}, writes: map[string]bool{}, wlocals: map[string]bool{}}
				c.loops[s] = li
				c.loopList = append(c.loopList, li)
			}
			// add all blocks that reach b without passing s
			var stack []*ssa.BasicBlock
			if !li.blocks[b] {
				li.blocks[b] = true
				stack = append(stack, b)
			}
			for len(stack) > 0 {
				x := stack[len(stack)-1]
				stack = stack[:len(stack)-1]
				for _, p := range x.Preds {
					if visited[p] && !li.blocks[p] {
						li.blocks[p] = true
						stack = append(stack, p)
					}
				}
			}
		}
	}
	// ordinals in source order: by position of the header's first positioned instruction,
	// falling back to block index
	sort.Slice(c.loopList, func(i, j int) bool {
		pi, pj := loopPos(c.loopList[i]), loopPos(c.loopList[j])
		if pi != pj {
			return pi < pj
		}
		return c.loopList[i].header.Index < c.loopList[j].header.Index
	})
	for i, li := range c.loopList {
		li.ordinal = i + 1
	}
}

func loopPos(li *loopInfo) token.Pos {
	best := token.Pos(0)
	for b := range li.blocks {
		for _, in := range b.Instrs {
			if _, ok := in.(*ssa.DebugRef); ok {
				continue
			}
			if p := in.Pos(); p.IsValid() && (best == 0 || p < best) {
				best = p
			}
		}
	}
	return best
}

func (c *FnCtx) isBackEdge(p, s *ssa.BasicBlock) bool { return s.Dominates(p) }

func (c *FnCtx) edge(p, s *ssa.BasicBlock) string {
	return c.edges[[2]int{p.Index, s.Index}]
}

// ---------- main translation ----------

func (c *FnCtx) translate() {
	fn := c.fn
	c.prepareCFG()
	c.entry = heapState{}
	c.cur = heapState{}
	// heaps known from a previous pass exist from the start
	names := make([]string, 0, len(c.knownHeaps))
	for n := range c.knownHeaps {
		names = append(names, n)
	}
	sort.Strings(names)
	for _, n := range names {
		c.heapDecl(n, c.knownHeaps[n])
	}
	c.heapDecl("ALLOC", "Int")
	c.assume(le("1000", c.entry["ALLOC"]))
	for h, srt := range c.knownLocals {
		if strings.HasPrefix(h, "L_defer") && srt == "Bool" {
			c.heapDecl(h, "Bool")
			c.assume(not(c.entry[h]))
		}
	} // references below 1000 are package-level variables
	// parameters and free variables
	for i, p := range fn.Params {
		c.freshVal(p)
		if i == 0 && fn.Signature.Recv() != nil && c.eng.ownPkgFn(fn) {
			if _, isPtr := types.Unalias(p.Type()).Underlying().(*types.Pointer); isPtr {
				c.assume(not(eq(c.vals[p], "0"))) // implicit precondition, checked at call sites
			}
		}
	}
	for _, fv := range fn.FreeVars {
		c.freshVal(fv)
		if _, isPtr := types.Unalias(fv.Type()).Underlying().(*types.Pointer); isPtr {
			c.assume(not(eq(c.vals[fv], "0"))) // a captured variable's cell always exists
		}
	}
	c.classifyAllocs()
	c.computeLoopWrites()
	c.assumeRequires()
	for _, b := range c.order {
		c.translateBlock(b)
	}
}

func (c *FnCtx) translateBlock(b *ssa.BasicBlock) {
	c.curBlock = b
	li := c.loops[b]
	r := fmt.Sprintf("reach_%d", b.Index)
	c.declare(r, "Bool")
	c.reach[b] = r
	// incoming edges
	var inEdges []string
	var inPreds []*ssa.BasicBlock
	for _, p := range b.Preds {
		if c.isBackEdge(p, b) {
			continue
		}
		if e := c.edge(p, b); e != "" {
			inEdges = append(inEdges, e)
			inPreds = append(inPreds, p)
		}
	}
	if b == c.fn.Blocks[0] {
		c.assume(r)
		c.cur = c.entry.clone()
	} else {
		c.assume(eq(r, or(inEdges...)))
		c.cur = c.mergeHeaps(b, inPreds)
	}
	if li != nil {
		li.preHeap = c.cur.clone()
		// havoc the loop's write set
		var ws []string
		if li.writes["*"] {
			for _, h := range c.heapOrder {
				if !c.isLocalHeap(h) {
					li.writes[h] = true
				}
			}
		}
		for h := range li.writes {
			ws = append(ws, h)
		}
		sort.Strings(ws)
		for _, h := range ws {
			if _, ok := c.heapSort[h]; !ok {
				continue
			}
			c.heapGet(h, c.heapSort[h])
			c.heapHavoc(h)
		}
		// allocation counter only grows
		if li.writes["ALLOC"] {
			c.assume(le(li.preHeap["ALLOC"], c.cur["ALLOC"]))
		}
		c.loopFrame(li)
	}
	// phis
	for _, in := range b.Instrs {
		phi, ok := in.(*ssa.Phi)
		if !ok {
			break
		}
		n := c.freshVal(phi)
		if li == nil {
			for i, p := range b.Preds {
				if e := c.edge(p, b); e != "" {
					c.assumeAt(e, eq(n, c.term(phi.Edges[i])))
				}
			}
		}
	}
	if li != nil {
		li.headHeap = c.cur.clone()
		c.assumeInvariants(li)
	}
	for _, in := range b.Instrs {
		if _, ok := in.(*ssa.Phi); ok {
			continue
		}
		c.instr(in)
	}
	c.out[b] = c.cur
	// loop invariant obligations for edges into loop headers
	for _, s := range b.Succs {
		if sl := c.loops[s]; sl != nil {
			c.checkInvariants(sl, b)
		}
	}
}

func (c *FnCtx) mergeHeaps(b *ssa.BasicBlock, preds []*ssa.BasicBlock) heapState {
	if len(preds) == 0 {
		return c.entry.clone()
	}
	if len(preds) == 1 {
		return c.out[preds[0]].clone()
	}
	res := heapState{}
	for _, h := range c.heapOrder {
		var first string
		same := true
		for i, p := range preds {
			t, ok := c.out[p][h]
			if !ok {
				t = c.entry[h]
			}
			if i == 0 {
				first = t
			} else if t != first {
				same = false
			}
		}
		if same {
			res[h] = first
			continue
		}
		nv := fmt.Sprintf("%s@b%d", h, b.Index)
		c.declare(nv, c.heapSort[h])
		for _, p := range preds {
			t, ok := c.out[p][h]
			if !ok {
				t = c.entry[h]
			}
			c.assumeAt(c.edge(p, b), eq(nv, t))
		}
		res[h] = nv
	}
	return res
}

func (c *FnCtx) setEdges(b *ssa.BasicBlock, conds ...string) {
	for i, s := range b.Succs {
		name := fmt.Sprintf("edge_%d_%d", b.Index, s.Index)
		cond := c.reach[b]
		if i < len(conds) {
			cond = and(c.reach[b], conds[i])
		}
		if prev, ok := c.edges[[2]int{b.Index, s.Index}]; ok {
			// two edges to the same successor (if cond goto X else X)
			_ = prev
			cond = c.reach[b]
			name = name + "b"
		}
		c.declare(name, "Bool")
		c.assume(eq(name, cond))
		c.edges[[2]int{b.Index, s.Index}] = name
	}
}

// classifyAllocs decides which local Allocs can be modelled as versioned locals.
func (c *FnCtx) classifyAllocs() {
	for _, b := range c.fn.Blocks {
		for _, in := range b.Instrs {
			al, ok := in.(*ssa.Alloc)
			if !ok {
				continue
			}
			et := al.Type().(*types.Pointer).Elem()
			if _, isArr := types.Unalias(et).Underlying().(*types.Array); isArr {
				continue // arrays always live in element heaps
			}
			if !escapes(al, 0) {
				name := "L_" + sanitize(al.Name())
				if al.Comment != "" {
					name += "_" + sanitize(al.Comment)
				}
				c.locals[al] = name
			} else if capturedOnly(al) {
				// captured only by closures that are called or deferred right here: the cell is
				// private to this function and those closures
				name := "L_" + sanitize(al.Name())
				if al.Comment != "" {
					name += "_" + sanitize(al.Comment)
				}
				c.locals[al] = name
				c.captured[al] = true
			}
		}
	}
}

// capturedOnly: the only escaping uses of the Alloc are bindings of closures whose values are
// used only as the callee of calls and defers of this function.
func capturedOnly(al *ssa.Alloc) bool {
	refs := al.Referrers()
	if refs == nil {
		return false
	}
	for _, r := range *refs {
		switch u := r.(type) {
		case *ssa.Store:
			if u.Val == al {
				return false
			}
		case *ssa.UnOp:
			if u.Op != token.MUL {
				return false
			}
		case *ssa.DebugRef:
		case *ssa.MakeClosure:
			crefs := u.Referrers()
			if crefs == nil {
				return false
			}
			for _, cr := range *crefs {
				switch cu := cr.(type) {
				case *ssa.Call:
					if cu.Call.Value != u {
						return false
					}
					for _, a := range cu.Call.Args {
						if a == u {
							return false
						}
					}
				case *ssa.Defer:
					if cu.Call.Value != u {
						return false
					}
				case *ssa.DebugRef:
				default:
					return false
				}
			}
		default:
			return false
		}
	}
	return true
}

func escapes(v ssa.Value, depth int) bool {
	refs := v.Referrers()
	if refs == nil {
		return true
	}
	for _, r := range *refs {
		switch u := r.(type) {
		case *ssa.Store:
			if u.Val == v {
				return true
			}
		case *ssa.UnOp:
			if u.Op != token.MUL {
				return true
			}
		case *ssa.DebugRef:
		case *ssa.FieldAddr:
			if escapes(u, depth+1) {
				return true
			}
		case *ssa.IndexAddr:
			if escapes(u, depth+1) {
				return true
			}
		default:
			return true
		}
	}
	return false
}

// computeLoopWrites computes for each loop the heaps (and locals) its body may write.
func (c *FnCtx) computeLoopWrites() {
	for _, li := range c.loopList {
		blocks := make([]*ssa.BasicBlock, 0, len(li.blocks))
		for b := range li.blocks {
			blocks = append(blocks, b)
		}
		sort.Slice(blocks, func(i, j int) bool { return blocks[i].Index < blocks[j].Index })
		for _, b := range blocks {
			for _, in := range b.Instrs {
				c.eng.instrWrites(c, in, li.writes)
			}
		}
	}
}

// loopFrame: for element heaps written in the loop only through stores whose array is a
// loop-invariant value (and not by calls), all other arrays are unchanged. Sound by
// construction of the syntactic write set.
func (c *FnCtx) loopFrame(li *loopInfo) {
	// (refined frames are added by invariants; nothing assumed here yet)
}

func (c *FnCtx) run() (err error) {
	defer func() {
		if r := recover(); r != nil {
			if u, ok := r.(unsupported); ok {
				err = fmt.Errorf("outside subset: %s", u.why)
				return
			}
			panic(r)
		}
	}()
	c.translate()
	return nil
}
