package main

import (
	"fmt"
	"go/token"
	"go/types"
	"regexp"
	"sort"
	"strings"

	"golang.org/x/tools/go/ssa"
)

// callOrdinal: 1-based position of a call among the function's calls in source order (builtins excluded).
func (c *FnCtx) callOrdinal(x *ssa.Call) int {
	if c.callOrd == nil {
		c.callOrd = map[*ssa.Call]int{}
		var calls []*ssa.Call
		for _, b := range c.fn.Blocks {
			for _, in := range b.Instrs {
				if cl, ok := in.(*ssa.Call); ok {
					if _, isB := cl.Call.Value.(*ssa.Builtin); !isB && cl.Pos().IsValid() {
						calls = append(calls, cl)
					}
				}
			}
		}
		sort.SliceStable(calls, func(i, j int) bool { return calls[i].Pos() < calls[j].Pos() })
		for i, cl := range calls {
			c.callOrd[cl] = i + 1
		}
	}
	return c.callOrd[x]
}

func (c *FnCtx) instrCall(x *ssa.Call) {
	defer func() {
		// the state right after this call can be named in the contract: after(K, E)
		if k := c.callOrdinal(x); k > 0 {
			if c.callSnaps == nil {
				c.callSnaps = map[int]heapState{}
			}
			c.callSnaps[k] = c.cur.clone()
		}
	}()
	res := c.callCommon(&x.Call, x, x.Pos())
	sig := x.Call.Signature()
	switch sig.Results().Len() {
	case 0:
	case 1:
		if res == nil || res[0] == "" {
			unsupp("call result unavailable for %s", x.Name())
		}
		c.vals[x] = res[0]
	default:
		c.tuples[x] = res
	}
}

// callCommon translates a call and returns the result terms.
func (c *FnCtx) callCommon(call *ssa.CallCommon, v ssa.Value, pos token.Pos) []string {
	if b, ok := call.Value.(*ssa.Builtin); ok {
		return c.builtin(b, call, v, pos)
	}
	sig := call.Signature()
	var args []string
	var argTypes []types.Type
	if call.IsInvoke() {
		args = append(args, c.term(call.Value))
		argTypes = append(argTypes, call.Value.Type())
		c.safety("nil-interface-call", not(eq(c.term(call.Value), "VNil")), pos, "method "+call.Method.Name()+" called on a nil interface value")
	}
	// a statically known callee (function, closure, or method)
	var callee *ssa.Function
	var bindings []ssa.Value
	if !call.IsInvoke() {
		switch f := call.Value.(type) {
		case *ssa.Function:
			callee = f
		case *ssa.MakeClosure:
			callee = f.Fn.(*ssa.Function)
			bindings = f.Bindings
		default:
			// function-typed value: maybe bound by call-site specialisation
			if fn, ok := c.boundFuncs[call.Value]; ok {
				callee = fn
			}
		}
	}
	for _, a := range call.Args {
		args = append(args, c.argTerm(a))
		argTypes = append(argTypes, a.Type())
	}
	// result constants
	mkResults := func(prefix string) []string {
		n := sig.Results().Len()
		out := make([]string, n)
		for i := 0; i < n; i++ {
			rt := sig.Results().At(i).Type()
			name := c.fresh(prefix)
			c.declare(name, c.sorts.sortOf(rt))
			out[i] = name
		}
		return out
	}
	validateResults := func(out []string) {
		for i := range out {
			c.assumeValid(out[i], sig.Results().At(i).Type())
		}
	}
	c.checkCallAsserts(callee, call, args, argTypes, pos)
	var key string
	var con *Contract
	if callee != nil && callee.Signature.Recv() != nil && len(args) > 0 {
		if _, isPtr := types.Unalias(callee.Signature.Recv().Type()).Underlying().(*types.Pointer); isPtr && c.eng.ownPkgFn(callee) {
			// methods with pointer receivers assume a non-nil receiver; checked at every static call site
			c.safety("nil-receiver", not(eq(args[0], "0")), pos, "nil receiver passed to "+callee.Name())
		}
	}
	if callee != nil {
		key = c.eng.funcKey(callee)
		con = c.eng.contractFor(callee)
		// a contract specialised for this call site takes precedence
		if pk := c.eng.fnPkg(callee); pk != nil {
			self := c.eng.funcKey(c.fn)
			if sc := c.eng.specs.Contracts[pk.Pkg.Path()+"::"+key+"@"+self]; sc != nil {
				con = sc
				key = key + "@" + self
			}
		}
		// an assumed contract of a dependency written for this caller ("external sort.SliceStable@sortItems"):
		// it may speak about the function value passed, whose contract is known at this call site
		if sc := c.eng.specs.Contracts[c.eng.qualKey(callee)+"@"+c.eng.funcKey(c.fn)]; sc != nil && sc.External {
			con = sc
			key = c.eng.qualKey(callee) + "@" + c.eng.funcKey(c.fn)
		}
	} else if fk, obj, ok := c.fieldFuncCall(call); ok && c.eng.specs.Contracts[fk] != nil {
		// a call of the function stored in a field of an object: an assumed contract may be given for
		// it as "external field.T.f(obj, args...)", with the object holding the field as first parameter
		key = fk
		con = c.eng.specs.Contracts[fk]
		args = append([]string{obj.t}, args...)
		argTypes = append([]types.Type{obj.ty}, argTypes...)
	} else if call.IsInvoke() {
		key = "iface:" + typeKey(call.Value.Type()) + "." + call.Method.Name()
		con = c.eng.specs.Contracts[types.TypeString(types.Unalias(call.Value.Type()), nil)+"."+call.Method.Name()]
		if con == nil {
			con = c.eng.specs.Contracts["iface."+call.Method.Name()]
		}
	}
	if con != nil {
		c.usedContracts[key] = true
		if con.Trusted {
			c.usedExternal[key] = true
		}
		c.checkTypeInvsAtCall(callee, args, argTypes, pos)
		c.curBindings, c.curCallee = bindings, callee
		beforeCon := c.cur.clone()
		allocBeforeCon := c.alloc()
		defer func() {
			if con.ModAll {
				c.assumeCalleeFrame(callee, beforeCon, allocBeforeCon)
			}
		}()
		out := c.applyContract(con, callee, args, argTypes, sig, pos, mkResults, validateResults)
		c.curBindings, c.curCallee = nil, nil
		c.havocCaptured(bindings, callee, con)
		c.flushPendingHavoc()
		c.assumeTypeInvsAfterCall(callee, args, argTypes, out, sig)
		return out
	}
	c.checkTypeInvsAtCall(callee, args, argTypes, pos)
	defer c.havocCaptured(bindings, callee, nil)
	// no contract: havoc what the callee may modify
	out := mkResults("ret")
	var mods map[string]bool
	all := false
	if callee != nil {
		ms := c.eng.modSet(callee)
		mods, all = ms.heaps, ms.all
		// closures write through captured cells
		_ = bindings
	} else {
		all = true
	}
	c.noteUncontracted(key, callee, call)
	beforeCall := c.cur.clone()
	allocBefore := c.alloc()
	if c.frameMode() && callee != nil {
		if idx, ok := mutatingExternals[c.eng.qualKeyShort(callee)]; ok && idx < len(args) {
			switch tt := types.Unalias(argTypes[idx]).Underlying().(type) {
			case *types.Slice:
				c.accessOblige(heapElem(tt.Elem()), app("s-arr", args[idx]), pos, "in-place "+callee.Name())
			case *types.Map:
				c.accessOblige(heapMapVal(tt), args[idx], pos, "in-place "+callee.Name())
			}
		}
	}
	c.havocCall(mods, all, args, argTypes)
	c.assumeCalleeFrame(callee, beforeCall, allocBefore)
	c.flushPendingHavoc()
	validateResults(out)
	c.assumeTypeInvsAfterCall(callee, args, argTypes, out, sig)
	return out
}

// fieldFuncCall recognises x.f(...) where f is a function-typed field of a struct of the verified
// packages, and returns the contract key "field.T.f" and the object x.
func (c *FnCtx) fieldFuncCall(call *ssa.CallCommon) (string, sv, bool) {
	if call.IsInvoke() {
		return "", sv{}, false
	}
	ld, ok := call.Value.(*ssa.UnOp)
	if !ok || ld.Op != token.MUL {
		return "", sv{}, false
	}
	fa, ok := ld.X.(*ssa.FieldAddr)
	if !ok {
		return "", sv{}, false
	}
	pt, ok := types.Unalias(fa.X.Type()).Underlying().(*types.Pointer)
	if !ok {
		return "", sv{}, false
	}
	named, ok := types.Unalias(pt.Elem()).(*types.Named)
	if !ok {
		return "", sv{}, false
	}
	st, ok := named.Underlying().(*types.Struct)
	if !ok || fa.Field >= st.NumFields() {
		return "", sv{}, false
	}
	if _, hasTerm := c.vals[fa.X]; !hasTerm {
		return "", sv{}, false
	}
	return "field." + named.Obj().Name() + "." + st.Field(fa.Field).Name(), sv{c.vals[fa.X], fa.X.Type()}, true
}

var nativeName = regexp.MustCompile(`^func[A-Z][A-Za-z0-9]*$`)

// capturedWritten: names of free variables a closure contract declares it writes (cell(name)).
func capturedWritten(con *Contract) map[string]bool {
	out := map[string]bool{}
	for _, it := range con.ModItems {
		if call, ok := it.E.(*ECall); ok && call.Fun == "cell" && len(call.Args) == 1 {
			if id, ok := call.Args[0].(*EIdent); ok {
				out[id.Name] = true
			}
		}
	}
	return out
}

// havocCaptured: after a call of a closure, the captured private cells it may write are unknown.
func (c *FnCtx) havocCaptured(bindings []ssa.Value, callee *ssa.Function, con *Contract) {
	if callee == nil || len(bindings) != len(callee.FreeVars) {
		return
	}
	var written map[string]bool
	if con != nil {
		if con.ModAll {
			written = nil
		} else {
			written = capturedWritten(con)
		}
	}
	for i, b := range bindings {
		al, ok := b.(*ssa.Alloc)
		if !ok || !c.captured[al] {
			continue
		}
		if con != nil && !con.ModAll && !written[callee.FreeVars[i].Name()] {
			continue
		}
		name := c.locals[al]
		if _, ok := c.heapSort[name]; ok {
			c.heapGet(name, c.heapSort[name])
			nv := c.heapHavoc(name)
			c.assumeValid(nv, al.Type().(*types.Pointer).Elem())
		}
	}
}

func (c *FnCtx) argTerm(a ssa.Value) string {
	if ad, ok := c.addrs[a]; ok {
		if _, ok2 := c.vals[a]; !ok2 {
			// a pointer into an object or array: passed as an opaque non-nil pointer; whatever it
			// points into is havocked after the call
			n := c.fresh("iptr")
			c.declare(n, "Int")
			c.assume(and(lt("0", n), le(n, c.alloc())))
			c.pendingHavoc = append(c.pendingHavoc, ad.rootHeap())
			return n
		}
	}
	return c.term(a)
}

func (c *FnCtx) flushPendingHavoc() {
	for _, h := range c.pendingHavoc {
		if _, ok := c.heapSort[h]; ok {
			c.heapGet(h, c.heapSort[h])
			c.heapHavoc(h)
		}
	}
	c.pendingHavoc = nil
}

func (c *FnCtx) noteUncontracted(key string, callee *ssa.Function, call *ssa.CallCommon) {
	if key == "" {
		key = "dynamic:" + call.Value.Name()
	}
	c.uncontracted[key] = true
}

// havocCall havocs the heaps a call may write; pre-existing state outside the write set is kept.
func (c *FnCtx) havocCall(mods map[string]bool, all bool, args []string, argTypes []types.Type) {
	preAlloc := c.alloc()
	var names []string
	if all {
		for _, h := range c.heapOrder {
			if c.isLocalHeap(h) {
				continue
			}
			names = append(names, h)
		}
	} else {
		for h := range mods {
			if _, ok := c.heapSort[h]; ok && !c.isLocalHeap(h) {
				names = append(names, h)
			}
		}
		sort.Strings(names)
	}
	seenAlloc := false
	for _, h := range names {
		if h == "ALLOC" {
			seenAlloc = true
		}
		c.heapGet(h, c.heapSort[h])
		c.prevHeap[h] = c.cur[h]
		c.heapHavoc(h)
	}
	if !seenAlloc {
		// any call may allocate
		c.heapGet("ALLOC", "Int")
		c.heapHavoc("ALLOC")
	}
	c.assume(le(preAlloc, c.cur["ALLOC"]))
}

func (c *FnCtx) isLocalHeap(h string) bool {
	return strings.HasPrefix(h, "L_") || strings.HasPrefix(h, "IT_")
}

// applyContract: assert requires, havoc modifies, assume ensures.
func (c *FnCtx) applyContract(con *Contract, callee *ssa.Function, args []string, argTypes []types.Type, sig *types.Signature, pos token.Pos, mkResults func(string) []string, validateResults func([]string)) []string {
	env := &specEnv{c: c, vars: map[string]sv{}, pkg: c.eng.pkgOfContract(con, c.fn)}
	if len(con.Params) != len(args) && !con.Flags["pure-decl"] {
		unsupp("contract %s: %d parameters, call has %d arguments", con.Key, len(con.Params), len(args))
	}
	for i, n := range con.Params {
		if i < len(args) {
			env.vars[n] = sv{args[i], argTypes[i]}
		}
	}
	// free variables of a closure: by name, the current content of the captured variable
	if callee != nil && len(c.curBindings) == len(callee.FreeVars) {
		for i, fv := range callee.FreeVars {
			b := c.curBindings[i]
			if _, isPtr := types.Unalias(fv.Type()).Underlying().(*types.Pointer); isPtr {
				if _, isAlloc := b.(*ssa.Alloc); isAlloc {
					a := c.addrOf(b)
					if _, taken := env.vars[fv.Name()]; !taken {
						env.vars[fv.Name()] = sv{c.load(a), a.ty}
					}
					continue
				}
			}
			if t, ok := c.vals[b]; ok {
				if _, taken := env.vars[fv.Name()]; !taken {
					env.vars[fv.Name()] = sv{t, b.Type()}
				}
			}
		}
	}
	// parameters typed by the callee's signature where available (argument types can be more
	// specific only for interfaces, which are boxed already)
	pre := c.cur.clone()
	env.heap = pre
	for _, cl := range con.Clauses {
		if cl.Kind != "requires" {
			continue
		}
		t, err := env.evalBool(cl.E)
		if err != nil {
			unsupp("contract %s line %d: %v", con.Key, cl.Line, err)
		}
		props := cl.Props
		if c.opts != nil && c.opts.props != nil && len(props) == 0 {
			props = c.opts.props
		}
		if len(props) == 0 {
			props = []string{"C08"}
		}
		// a precondition protects the callee from a state it is not written for: establishing it is
		// part of the no-crash claim of every caller, whichever property the clause was written for -
		// unless the clause is marked F (functional only: needed for the callee's result, not its safety)
		if !hasProp(props, "F") && !hasProp(props, "C08") {
			props = append(append([]string{}, props...), "C08")
		}
		if (c.opts != nil && c.opts.noSafety) || (c.con != nil && c.con.Flags["nosafety"]) {
			c.assumeAt(c.guard(), t)
		} else {
			c.oblige("call-requires:"+con.Key, props, c.guard(), t, pos, cl, "precondition of "+con.Key+": "+cl.Text)
		}
	}
	// havoc
	preAlloc := c.alloc()
	if con.ModAll {
		c.havocCall(nil, true, args, argTypes)
	} else {
		fr := c.modFrame(con, env)
		mods := map[string]bool{}
		before := map[string]string{}
		for h := range fr {
			mods[h] = true
			before[h] = c.heapGet(h, c.heapSort[h])
		}
		c.havocCall(mods, false, args, argTypes)
		// objects not named by the modifies clause keep their state
		var hs []string
		for h := range fr {
			hs = append(hs, h)
		}
		sort.Strings(hs)
		for _, h := range hs {
			refs := fr[h]
			if refs == nil || h == "ALLOC" {
				continue
			}
			r := c.fresh("r")
			var ne []string
			for _, x := range refs {
				ne = append(ne, not(eq(r, x)))
			}
			c.assume(forall([][2]string{{r, "Int"}}, implies(and(ne...), eq(sel(c.cur[h], r), sel(before[h], r))), sel(c.cur[h], r)))
		}
	}
	_ = preAlloc
	out := mkResults("ret")
	validateResults(out)
	if len(con.Results) > len(out) {
		unsupp("contract %s names %d results, function has %d", con.Key, len(con.Results), len(out))
	}
	for i, n := range con.Results {
		env.vars[n] = sv{out[i], sig.Results().At(i).Type()}
	}
	env.heap = c.cur.clone()
	env.old = pre
	for _, cl := range con.Clauses {
		if cl.Kind != "ensures" && cl.Kind != "defines" {
			continue
		}
		env.heap = c.cur.clone()
		t, err := env.evalBool(cl.E)
		if err != nil {
			unsupp("contract %s line %d: %v", con.Key, cl.Line, err)
		}
		c.assumeAt(c.guard(), t)
	}
	return out
}

// modFrame evaluates a contract's modifies clause in env (pre-state): heap -> list of object
// references that may change (nil = the whole heap).
func (c *FnCtx) modFrame(con *Contract, env *specEnv) map[string][]string {
	fr := map[string][]string{}
	addRef := func(h, srt, ref string) {
		c.heapDecl(h, srt)
		if refs, ok := fr[h]; ok && refs == nil {
			return
		}
		fr[h] = append(fr[h], ref)
	}
	saved := c.cur
	c.cur = env.heap.clone()
	defer func() { c.cur = saved }()
	for _, it := range con.ModItems {
		if it.Heap != "" {
			for _, h := range c.expandModifies(it.Heap) {
				fr[h] = nil
			}
			continue
		}
		func() {
			defer func() {
				if r := recover(); r != nil {
					if se, ok := r.(specErr); ok {
						unsupp("modifies %s: %s", it.Text, se.msg)
					}
					panic(r)
				}
			}()
			switch n := it.E.(type) {
			case *ESel:
				b := env.eval(n.X)
				pt, ok := types.Unalias(b.ty).Underlying().(*types.Pointer)
				if !ok {
					specFail("not a pointer")
				}
				st, ok := types.Unalias(pt.Elem()).Underlying().(*types.Struct)
				if !ok {
					specFail("not a struct pointer")
				}
				for i := 0; i < st.NumFields(); i++ {
					if st.Field(i).Name() == n.Name {
						h := heapField(pt.Elem(), i)
						addRef(h, "(Array Int "+c.sorts.sortOf(st.Field(i).Type())+")", b.t)
						return
					}
				}
				specFail("no field %s", n.Name)
			case *ECall:
				if n.Fun == "ghost" && len(n.Args) == 2 {
					if nm, ok := n.Args[1].(*EStr); ok {
						addRef("GH_g_"+nm.Val, "(Array Int Int)", c.refOf(env.eval(n.Args[0])))
						return
					}
					specFail("bad ghost item")
				}
				if len(n.Args) != 1 {
					specFail("bad modifies item")
				}
				a := env.eval(n.Args[0])
				switch n.Fun {
				case "elems":
					stt, ok := types.Unalias(a.ty).Underlying().(*types.Slice)
					if !ok {
						specFail("elems of non-slice")
					}
					hn, hs := c.elemHeap(stt.Elem())
					addRef(hn, hs, app("s-arr", a.t))
				case "elemsany":
					// the backing array of a slice carried by an interface value: references are drawn
					// from one counter, so the array lives at this reference in exactly one element heap
					ref := c.refOf(a)
					for _, h := range c.heapOrder {
						if strings.HasPrefix(h, "HE_") {
							addRef(h, c.heapSort[h], ref)
						}
					}
				case "entries":
					mt, ok := types.Unalias(a.ty).Underlying().(*types.Map)
					if !ok {
						specFail("entries of non-map")
					}
					d, v, l := c.mapHeaps(mt)
					addRef(d, c.heapSort[d], a.t)
					addRef(v, c.heapSort[v], a.t)
					addRef(l, c.heapSort[l], a.t)
				case "bigval":
					addRef("BIG", "(Array Int Int)", a.t)
				case "out":
					addRef("GH_out", "(Array Int Str)", c.writerKey(a))
				case "owned":
					addRef("GH_owned", "(Array Int Bool)", c.refOf(a))
				case "cell":
					if isInterface(a.ty) {
						// the variable a pointer carried by an interface value points to: it lives at this
						// reference in exactly one cell heap (references come from one counter)
						ref := app("vpay", a.t)
						for _, h := range c.heapOrder {
							if strings.HasPrefix(h, "HC_") {
								addRef(h, c.heapSort[h], ref)
							}
						}
						return
					}
					pt, ok := types.Unalias(a.ty).Underlying().(*types.Pointer)
					if !ok {
						specFail("cell of non-pointer")
					}
					h := heapCell(pt.Elem())
					addRef(h, "(Array Int "+c.sorts.sortOf(pt.Elem())+")", a.t)
				default:
					specFail("bad modifies item")
				}
			default:
				specFail("bad modifies item")
			}
		}()
	}
	return fr
}

// expandModifies maps a modifies item to heap variable names. Items are heap names
// ("HE_any", "BIG"), or patterns with a trailing '*'.
func (c *FnCtx) expandModifies(m string) []string {
	if strings.HasSuffix(m, "*") {
		var out []string
		p := strings.TrimSuffix(m, "*")
		for _, h := range c.heapOrder {
			if strings.HasPrefix(h, p) {
				out = append(out, h)
			}
		}
		return out
	}
	if srt, ok := c.eng.heapSortByName(c, m); ok {
		c.heapDecl(m, srt)
		return []string{m}
	}
	unsupp("modifies: unknown heap %q", m)
	return nil
}

// ---------- builtins ----------

func (c *FnCtx) builtin(b *ssa.Builtin, call *ssa.CallCommon, v ssa.Value, pos token.Pos) []string {
	args := call.Args
	switch b.Name() {
	case "len":
		a := c.term(args[0])
		switch tt := types.Unalias(args[0].Type()).Underlying().(type) {
		case *types.Basic:
			return c.named(v, app("slen", a))
		case *types.Slice:
			return c.named(v, app("s-len", a))
		case *types.Map:
			_, _, ln := c.mapHeaps(tt)
			l := c.heapGet(ln, c.heapSort[ln])
			r := c.named(v, ite(eq(a, "0"), "0", sel(l, a)))
			c.assume(and(le("0", r[0]), lt(r[0], maxLenS)))
			return r
		case *types.Pointer:
			at := types.Unalias(tt.Elem()).Underlying().(*types.Array)
			return c.named(v, intLit(at.Len()))
		case *types.Array:
			return c.named(v, intLit(tt.Len()))
		}
	case "cap":
		a := c.term(args[0])
		if _, ok := types.Unalias(args[0].Type()).Underlying().(*types.Slice); ok {
			return c.named(v, app("s-cap", a))
		}
	case "min", "max":
		f := "imin"
		if b.Name() == "max" {
			f = "imax"
		}
		if basicInfo(args[0].Type())&types.IsFloat != 0 {
			f = "f64_" + b.Name()
			c.declareFun(f, []string{"F64", "F64"}, "F64")
		} else if basicInfo(args[0].Type())&types.IsInteger == 0 {
			break
		}
		r := c.term(args[0])
		for _, a := range args[1:] {
			r = app(f, r, c.term(a))
		}
		return c.named(v, r)
	case "append":
		return c.builtinAppend(call, v, pos)
	case "copy":
		return c.builtinCopy(call, v, pos)
	case "delete":
		tt := types.Unalias(args[0].Type()).Underlying().(*types.Map)
		m, k := c.term(args[0]), c.term(args[1])
		c.checkMapDelete(tt, m, k, pos)
		c.mapDelete(tt, m, k)
		return nil
	case "clear":
	case "print", "println":
		return nil
	case "recover":
		n := c.fresh("recovered")
		c.declare(n, "Val")
		return []string{n}
	case "panic":
	}
	unsupp("builtin %s on %s", b.Name(), args[0].Type())
	return nil
}

func (c *FnCtx) named(v ssa.Value, t string) []string {
	if v == nil {
		return []string{t}
	}
	c.setVal(v, t)
	return []string{c.vals[v]}
}

func (c *FnCtx) builtinAppend(call *ssa.CallCommon, v ssa.Value, pos token.Pos) []string {
	s := c.term(call.Args[0])
	st := types.Unalias(call.Args[0].Type()).Underlying().(*types.Slice)
	hn, hs := c.elemHeap(st.Elem())
	var addLen string
	var elemAt func(k string) string // k-th appended element
	switch at := types.Unalias(call.Args[1].Type()).Underlying().(type) {
	case *types.Slice:
		t := c.term(call.Args[1])
		addLen = app("s-len", t)
		h0 := c.heapGet(hn, hs)
		elemAt = func(k string) string { return sel2(h0, app("s-arr", t), add(app("s-off", t), k)) }
		_ = at
	case *types.Basic: // append([]byte, string...)
		t := c.term(call.Args[1])
		addLen = app("slen", t)
		elemAt = func(k string) string { return app("sat", t, k) }
	default:
		unsupp("append of %s", call.Args[1].Type())
	}
	h0 := c.heapGet(hn, hs)
	ln, cp := app("s-len", s), app("s-cap", s)
	newLen := c.fresh("alen")
	c.declare(newLen, "Int")
	c.assume(eq(newLen, add(ln, addLen)))
	c.assumeAt(c.guard(), lt(newLen, maxLenS))
	inPlace := c.fresh("inplace")
	c.declare(inPlace, "Bool")
	c.assume(eq(inPlace, le(newLen, cp)))
	// result slice
	r := c.fresh("app")
	c.declare(r, "Slice")
	fresh := c.newRef()
	newCap := c.fresh("acap")
	c.declare(newCap, "Int")
	c.assume(and(le(newLen, newCap), lt(newCap, maxLenS)))
	c.assume(eq(r, ite(inPlace,
		app("mk-slice", app("s-arr", s), app("s-off", s), newLen, cp),
		app("mk-slice", fresh, "0", newLen, newCap))))
	// an in-place append to a nil slice with nothing to add stays nil
	// heap effect
	c.checkAppendWrite(st, s, inPlace, addLen, pos)
	c.prevHeap[hn] = h0
	h1 := c.heapHavoc(hn)
	rr, k := c.fresh("r"), c.fresh("k")
	dstArr, dstOff := app("s-arr", r), app("s-off", r)
	// cells of the destination window [0,newLen): old prefix then appended elements
	c.assume(forall([][2]string{{k, "Int"}}, implies(and(le("0", k), lt(k, newLen)),
		eq(sel2(h1, dstArr, add(dstOff, k)), ite(lt(k, ln), sel2(h0, app("s-arr", s), add(app("s-off", s), k)), elemAt(sub(k, ln))))),
		sel2(h1, dstArr, add(dstOff, k))))
	// everything else unchanged: other arrays entirely; in the destination array, cells outside the
	// written window
	c.assume(forall([][2]string{{rr, "Int"}}, implies(not(eq(rr, dstArr)), eq(sel(h1, rr), sel(h0, rr))), sel(h1, rr)))
	c.assume(implies(inPlace, forall([][2]string{{k, "Int"}}, implies(or(lt(k, add(dstOff, ln)), le(add(dstOff, newLen), k)),
		eq(sel2(h1, dstArr, k), sel2(h0, dstArr, k))), sel2(h1, dstArr, k))))
	if v != nil {
		c.vals[v] = r
	}
	c.assume(app("validSlice", r))
	return []string{r}
}

func (c *FnCtx) builtinCopy(call *ssa.CallCommon, v ssa.Value, pos token.Pos) []string {
	d := c.term(call.Args[0])
	st := types.Unalias(call.Args[0].Type()).Underlying().(*types.Slice)
	hn, hs := c.elemHeap(st.Elem())
	h0 := c.heapGet(hn, hs)
	var srcLen string
	var elemAt func(k string) string
	switch types.Unalias(call.Args[1].Type()).Underlying().(type) {
	case *types.Slice:
		t := c.term(call.Args[1])
		srcLen = app("s-len", t)
		elemAt = func(k string) string { return sel2(h0, app("s-arr", t), add(app("s-off", t), k)) }
	case *types.Basic:
		t := c.term(call.Args[1])
		srcLen = app("slen", t)
		elemAt = func(k string) string { return app("sat", t, k) }
	default:
		unsupp("copy from %s", call.Args[1].Type())
	}
	n := c.fresh("ncopy")
	c.declare(n, "Int")
	c.assume(eq(n, app("imin", app("s-len", d), srcLen)))
	c.checkCopyWrite(st, d, n, pos)
	c.prevHeap[hn] = h0
	h1 := c.heapHavoc(hn)
	rr, k := c.fresh("r"), c.fresh("k")
	dstArr, dstOff := app("s-arr", d), app("s-off", d)
	c.assume(forall([][2]string{{k, "Int"}}, implies(and(le("0", k), lt(k, n)),
		eq(sel2(h1, dstArr, add(dstOff, k)), elemAt(k))), sel2(h1, dstArr, add(dstOff, k))))
	c.assume(forall([][2]string{{rr, "Int"}}, implies(not(eq(rr, dstArr)), eq(sel(h1, rr), sel(h0, rr))), sel(h1, rr)))
	c.assume(forall([][2]string{{k, "Int"}}, implies(or(lt(k, dstOff), le(add(dstOff, n), k)),
		eq(sel2(h1, dstArr, k), sel2(h0, dstArr, k))), sel2(h1, dstArr, k)))
	if v != nil {
		c.vals[v] = n
	}
	return []string{n}
}

// ---------- contracts of the function under verification ----------

func (c *FnCtx) conEnv() *specEnv {
	env := &specEnv{c: c, vars: map[string]sv{}, pkg: c.pkgTypes()}
	// parameters by contract name (positional), else by SSA name
	for i, p := range c.fn.Params {
		name := p.Name()
		if c.con != nil && i < len(c.con.Params) {
			name = c.con.Params[i]
		}
		env.vars[name] = sv{c.vals[p], p.Type()}
	}
	for _, fv := range c.fn.FreeVars {
		// a captured variable is a pointer to its cell; the name denotes the cell's content
		fv := fv
		_ = fv
	}
	return env
}

func (c *FnCtx) pkgTypes() *types.Package {
	if pk := c.eng.fnPkg(c.fn); pk != nil {
		return pk.Pkg
	}
	return nil
}

// ---------- type invariants ----------

func (c *FnCtx) typeInvsFor(t types.Type) []*TypeInv {
	var out []*TypeInv
	for _, ti := range c.eng.specs.TypeInvs {
		pkg := c.eng.pkgs[ti.Pkg]
		if pkg == nil {
			continue
		}
		tt, err := c.eng.tryResolveType(pkg.Pkg, ti.Type)
		if err != nil {
			continue
		}
		if types.Identical(types.Unalias(t), tt) {
			out = append(out, ti)
		}
	}
	return out
}

func (c *FnCtx) evalTypeInv(ti *TypeInv, term string, t types.Type, heap, old heapState) (string, error) {
	env := &specEnv{c: c, vars: map[string]sv{ti.Var: {term, t}}, heap: heap, old: old}
	if p := c.eng.pkgs[ti.Pkg]; p != nil {
		env.pkg = p.Pkg
	}
	return env.evalBool(ti.Clause.E)
}

func (c *FnCtx) noInv() bool { return c.con != nil && c.con.Flags["noinv"] }

func (c *FnCtx) assumeTypeInvsAtEntry() {
	if c.noInv() {
		return
	}
	for _, p := range c.fn.Params {
		for _, ti := range c.typeInvsFor(p.Type()) {
			t, err := c.evalTypeInv(ti, c.vals[p], p.Type(), c.entry, nil)
			if err != nil {
				c.attachErr = fmt.Sprintf("type invariant line %d: %v", ti.Clause.Line, err)
				continue
			}
			c.assume(implies(not(eq(c.vals[p], "0")), t))
		}
	}
}

func (c *FnCtx) checkTypeInvsAtReturn(x *ssa.Return) {
	if c.noInv() {
		return
	}
	check := func(term string, t types.Type, what string) {
		for _, ti := range c.typeInvsFor(t) {
			g, err := c.evalTypeInv(ti, term, t, c.cur, c.entry)
			if err != nil {
				c.attachErr = fmt.Sprintf("type invariant line %d: %v", ti.Clause.Line, err)
				continue
			}
			props := ti.Clause.Props
			if len(props) == 0 && c.opts != nil {
				props = c.opts.props
			}
			c.oblige("type-invariant", props, and(c.guard(), not(eq(term, "0"))), g, x.Pos(), ti.Clause, "invariant of "+ti.Type+" for "+what+": "+ti.Clause.Text)
		}
	}
	for _, p := range c.fn.Params {
		check(c.vals[p], p.Type(), p.Name())
	}
	for i, r := range x.Results {
		if len(c.typeInvsFor(r.Type())) > 0 {
			check(c.term(r), r.Type(), fmt.Sprintf("result %d", i))
		}
	}
}

func (c *FnCtx) checkTypeInvsAtCall(callee *ssa.Function, args []string, argTypes []types.Type, pos token.Pos) {
	if callee == nil || !c.eng.ownPkgFn(callee) {
		return
	}
	if c.con != nil && c.con.Flags["nosafety"] {
		return
	}
	if con := c.eng.contractFor(callee); con != nil && con.Flags["noinv"] {
		return
	}
	for i, a := range args {
		for _, ti := range c.typeInvsFor(argTypes[i]) {
			g, err := c.evalTypeInv(ti, a, argTypes[i], c.cur, c.entry)
			if err != nil {
				continue
			}
			props := ti.Clause.Props
			if len(props) == 0 && c.opts != nil {
				props = c.opts.props
			}
			c.oblige("type-invariant-at-call", props, and(c.guard(), not(eq(a, "0"))), g, pos, ti.Clause, "invariant of "+ti.Type+" when calling "+callee.Name()+": "+ti.Clause.Text)
		}
	}
}

func (c *FnCtx) assumeTypeInvsAfterCall(callee *ssa.Function, args []string, argTypes []types.Type, out []string, sig *types.Signature) {
	if callee == nil || !c.eng.ownPkgFn(callee) {
		return
	}
	if con := c.eng.contractFor(callee); con != nil && con.Flags["noinv"] {
		return
	}
	for i, a := range args {
		for _, ti := range c.typeInvsFor(argTypes[i]) {
			if t, err := c.evalTypeInv(ti, a, argTypes[i], c.cur, c.entry); err == nil {
				c.assumeAt(c.guard(), implies(not(eq(a, "0")), t))
			}
		}
	}
	for i, r := range out {
		rt := sig.Results().At(i).Type()
		for _, ti := range c.typeInvsFor(rt) {
			if t, err := c.evalTypeInv(ti, r, rt, c.cur, c.entry); err == nil {
				c.assumeAt(c.guard(), implies(not(eq(r, "0")), t))
			}
		}
	}
}

func (c *FnCtx) assumeRequires() {
	c.assumeTypeInvsAtEntry()
	if c.opts != nil {
		for i, k := range c.opts.paramConst {
			if i < len(c.fn.Params) {
				c.assume(eq(c.vals[c.fn.Params[i]], c.constTerm(k)))
			}
		}
	}
	if c.con == nil {
		// a function swept without annotations: its interface-typed parameters range over the input
		// domain of C08, values built from the nine JSON representation types all the way down
		// (djson, when the contracts define it)
		// (only the native builtins funcXxx, which the interpreter calls with values from its stack; helpers
		// such as deleteEmpty also receive internal markers like struct{}{}, and assuming JSON there
		// would make those paths unreachable - the cover queries reject that)
		if sf := c.eng.specs.Funcs["djson"]; sf != nil && len(sf.Params) == 1 && nativeName.MatchString(c.fn.Name()) {
			env := c.conEnv()
			env.pkg = c.pkgTypes()
			env.heap = c.entry
			for _, p := range c.fn.Params {
				if !isEmptyInterface(p.Type()) {
					continue
				}
				env.vars = map[string]sv{"zz_p": {c.vals[p], p.Type()}}
				if t, err := env.evalBool(&ECall{Fun: "djson", Args: []Expr{&EIdent{Name: "zz_p"}}}); err == nil {
					c.assume(t)
				}
			}
		}
		return
	}
	if len(c.con.Params) > 0 && len(c.con.Params) != len(c.fn.Params) {
		c.attachErr = fmt.Sprintf("contract lists %d parameters, function has %d", len(c.con.Params), len(c.fn.Params))
		return
	}
	if c.con.NReturns > 0 {
		n := 0
		for _, b := range c.order {
			for _, in := range b.Instrs {
				if _, ok := in.(*ssa.Return); ok {
					n++
				}
			}
		}
		if n != c.con.NReturns {
			// postconditions keyed to one return cannot be placed any more: the function is undecided.
			// Proof hints (return N use) keyed to a return are merely dropped: the postconditions are
			// still generated and fail by name if they needed the hint.
			for _, cl := range c.con.Clauses {
				if cl.Kind == "ensures" && cl.Ret != 0 {
					c.attachErr = fmt.Sprintf("contract is written for %d return statements, function has %d", c.con.NReturns, n)
					return
				}
			}
			c.dropReturnHints = true
			c.dropped = append(c.dropped, fmt.Sprintf("contract is written for %d return statements, function has %d: the return-specific proof hints are dropped", c.con.NReturns, n))
		}
	}
	// the parameter types written in the contract must be the function's (closures are keyed by
	// ordinal; a renumbering must not attach a contract to a different closure)
	for i, pt := range c.con.PTypes {
		if pt == "" || i >= len(c.fn.Params) {
			continue
		}
		want, err := c.eng.tryResolveType(c.pkgTypes(), pt)
		if err != nil {
			continue
		}
		if !types.Identical(types.Unalias(want), types.Unalias(c.fn.Params[i].Type())) {
			c.attachErr = fmt.Sprintf("parameter %s has type %s, contract says %s", c.con.Params[i], c.fn.Params[i].Type(), pt)
			return
		}
	}
	env := c.conEnv()
	env.pkg = c.pkgTypes()
	env.heap = c.entry
	env.resolve = c.resolverAtEntry()
	var reqs []string
	for _, cl := range c.con.Clauses {
		if cl.Kind != "requires" {
			continue
		}
		t, err := env.evalBool(cl.E)
		if err != nil {
			c.attachErr = fmt.Sprintf("line %d: %v", cl.Line, err)
			return
		}
		c.assume(t)
		reqs = append(reqs, t)
	}
	c.requiresTerms = reqs
	c.reqPrefix = len(c.ctx)
}

// resolverAtEntry resolves free variables of closures (captured cells) by name.
func (c *FnCtx) resolverAtEntry() func(string) (sv, bool) {
	return func(name string) (sv, bool) {
		for _, fv := range c.fn.FreeVars {
			if fv.Name() == name {
				pt := fv.Type().(*types.Pointer)
				a := c.addrOfPtr(c.vals[fv], pt.Elem())
				return sv{c.load(a), pt.Elem()}, true
			}
		}
		return sv{}, false
	}
}

// checkCallAsserts: "call F requires E" clauses of the enclosing function's contract - an obligation at
// every call of F, over the call's arguments (arg0, arg1, ...) and the caller's variables.
func (c *FnCtx) checkCallAsserts(callee *ssa.Function, call *ssa.CallCommon, args []string, argTypes []types.Type, pos token.Pos) {
	if c.con == nil {
		return
	}
	cname := ""
	if callee != nil {
		cname = callee.Name()
	} else if p, ok := call.Value.(*ssa.Parameter); ok && !call.IsInvoke() {
		cname = p.Name() // a call of a function-typed parameter, named by the parameter
	}
	if cname == "" {
		return
	}
	for _, cl := range c.con.Clauses {
		if cl.Kind != "callassert" || cl.Callee != cname {
			continue
		}
		env := c.conEnv()
		env.pkg = c.pkgTypes()
		env.heap = c.cur
		env.old = c.entry
		for i := range args {
			env.vars[fmt.Sprintf("arg%d", i)] = sv{args[i], argTypes[i]}
		}
		blk := c.curBlock
		entryResolve := c.resolverAtEntry()
		env.resolve = func(name string) (sv, bool) {
			if v, ok := c.lastDefIn(name, blk); ok {
				return v, true
			}
			if v, ok := c.valueAt(name, blk, nil); ok {
				return v, true
			}
			return entryResolve(name)
		}
		t, err := env.evalBool(cl.E)
		if err != nil {
			c.dropInvariant(cl, err)
			continue
		}
		c.oblige("call-assert:"+cname, cl.Props, c.guard(), t, pos, cl, "at the call of "+cname+": "+cl.Text)
	}
}

// applyGhostSets performs the contract's ghost assignments (set ghost(x, "name") = E) at a return,
// before type invariants and postconditions are checked.
func (c *FnCtx) applyGhostSets(x *ssa.Return) {
	if c.con == nil {
		return
	}
	has := false
	for _, cl := range c.con.Clauses {
		if cl.Kind == "setghost" {
			has = true
		}
	}
	if !has {
		return
	}
	env := c.conEnv()
	env.pkg = c.pkgTypes()
	names := c.con.Results
	if len(names) == 0 {
		res := c.fn.Signature.Results()
		for i := 0; i < res.Len(); i++ {
			names = append(names, res.At(i).Name())
		}
	}
	for i, r := range x.Results {
		if i < len(names) && names[i] != "" && names[i] != "_" {
			env.vars[names[i]] = sv{c.term(r), r.Type()}
		}
	}
	env.old = c.entry
	retBlock := c.curBlock
	entryResolve := c.resolverAtEntry()
	env.resolve = func(name string) (sv, bool) {
		if v, ok := entryResolve(name); ok {
			return v, true
		}
		if v, ok := c.lastDefIn(name, retBlock); ok {
			return v, true
		}
		return c.valueAt(name, retBlock, nil)
	}
	ord := c.returnOrdinal(x)
	for _, cl := range c.con.Clauses {
		if cl.Kind != "setghost" || (cl.Ret != 0 && cl.Ret != ord) {
			continue
		}
		env.heap = c.cur
		var ref, val string
		func() {
			defer func() {
				if r := recover(); r != nil {
					c.dropInvariant(cl, fmt.Errorf("%v", r))
				}
			}()
			ref = c.refOf(env.eval(cl.GhostObj))
			val = env.eval(cl.E).t
		}()
		if ref == "" || val == "" {
			continue
		}
		hn := "GH_g_" + cl.GhostName
		h := c.heapGet(hn, "(Array Int Int)")
		// conditional on the path: the assignment happens only when this return is reached
		c.heapSet(hn, "(Array Int Int)", ite(c.guard(), sto(h, ref, val), h))
	}
}

func (c *FnCtx) instrReturn(x *ssa.Return) {
	c.retCount++
	// vacuity guard: this return must be reachable under everything assumed so far
	c.covers = append(c.covers, &Oblig{Block: c.curBlock, Name: fmt.Sprintf("%s/cover/return@%s#%d", c.key, c.posStr(x.Pos()), c.retCount), Kind: "cover", Goal: c.guard(), Prefix: len(c.ctx), Fn: c.key, Cover: true, ctx: c, PosStr: c.posStr(x.Pos())})
	c.applyGhostSets(x)
	c.checkTypeInvsAtReturn(x)
	if c.con == nil {
		return
	}
	env := c.conEnv()
	env.pkg = c.pkgTypes()
	env.resolve = c.resolverAtEntry()
	// result names: contract's, else the source's named results
	names := c.con.Results
	if len(names) == 0 {
		res := c.fn.Signature.Results()
		for i := 0; i < res.Len(); i++ {
			names = append(names, res.At(i).Name())
		}
	}
	for i, r := range x.Results {
		if i < len(names) && names[i] != "" && names[i] != "_" {
			env.vars[names[i]] = sv{c.term(r), r.Type()}
		}
	}
	env.heap = c.cur
	env.old = c.entry
	ord := c.returnOrdinal(x)
	// return-site clauses may name local variables (their value at this return)
	retBlock := c.curBlock
	entryResolve := env.resolve
	env.resolve = func(name string) (sv, bool) {
		if v, ok := entryResolve(name); ok {
			return v, true
		}
		if v, ok := c.lastDefIn(name, retBlock); ok {
			return v, true
		}
		return c.valueAt(name, retBlock, nil)
	}
	// "return N use L(args)": a proved lemma applied at this return (only lemma applications are
	// accepted, so nothing unproved is assumed)
	for _, cl := range c.con.Clauses {
		if cl.Kind != "use" || (cl.Ret != 0 && cl.Ret != ord) {
			continue
		}
		if cl.Ret != 0 && c.dropReturnHints {
			continue
		}
		call, ok := cl.E.(*ECall)
		isLemma := false
		if ok {
			for _, lem := range c.eng.specs.Lemmas {
				if lem.Name == call.Fun {
					isLemma = true
				}
			}
			for _, ax := range c.eng.specs.Axioms {
				if ax.Name == call.Fun {
					isLemma = true // an instance of an assumed axiom
				}
			}
		}
		if !isLemma {
			c.attachErr = fmt.Sprintf("line %d: use needs a lemma application", cl.Line)
			return
		}
		t, err := env.evalBool(cl.E)
		if err != nil {
			c.dropInvariant(cl, err) // a hint that names a variable that is gone: dropped, not fatal
			continue
		}
		c.assumeAt(c.guard(), t)
	}
	for _, cl := range c.con.Clauses {
		if cl.Kind != "ensures" {
			continue
		}
		if cl.Ret != 0 && cl.Ret != ord {
			continue
		}
		t, err := env.evalBool(cl.E)
		if err != nil {
			c.attachErr = fmt.Sprintf("line %d: %v", cl.Line, err)
			return
		}
		c.oblige("ensures", cl.Props, c.guard(), t, x.Pos(), cl, cl.Text)
	}
	c.checkFrameAtReturn(x)
}

// returnOrdinal: 1-based ordinal of a return statement in source order.
func (c *FnCtx) returnOrdinal(x *ssa.Return) int {
	if c.retOrd == nil {
		var rets []*ssa.Return
		for _, b := range c.order {
			for _, in := range b.Instrs {
				if r, ok := in.(*ssa.Return); ok {
					rets = append(rets, r)
				}
			}
		}
		sort.SliceStable(rets, func(i, j int) bool { return rets[i].Pos() < rets[j].Pos() })
		c.retOrd = map[*ssa.Return]int{}
		for i, r := range rets {
			c.retOrd[r] = i + 1
		}
	}
	return c.retOrd[x]
}

// ---------- loop invariants ----------

// valueAt resolves a source variable name at the head of block b.
// cellOf: if the source variable `name` lives in a memory cell (address taken or captured), the
// unique Alloc that holds it.
func (c *FnCtx) cellOf(name string) *ssa.Alloc {
	if c.cellCache == nil {
		c.cellCache = map[string]*ssa.Alloc{}
		amb := map[string]bool{}
		for _, b := range c.fn.Blocks {
			for _, in := range b.Instrs {
				dr, ok := in.(*ssa.DebugRef)
				if !ok || dr.Object() == nil {
					continue
				}
				if _, isVar := dr.Object().(*types.Var); !isVar {
					continue
				}
				var al *ssa.Alloc
				if dr.IsAddr {
					al, _ = dr.X.(*ssa.Alloc)
				} else if ld, ok := dr.X.(*ssa.UnOp); ok && ld.Op == token.MUL {
					// a use of a variable that lives in a cell is recorded as the loaded value
					al, _ = ld.X.(*ssa.Alloc)
					if al != nil && al.Comment != dr.Object().Name() {
						al = nil
					}
				}
				if al == nil {
					continue
				}
				n := dr.Object().Name()
				if prev, ok := c.cellCache[n]; ok && prev != al {
					amb[n] = true
				}
				c.cellCache[n] = al
			}
		}
		for n := range amb {
			delete(c.cellCache, n)
		}
	}
	return c.cellCache[name]
}

func (c *FnCtx) valueAt(name string, b *ssa.BasicBlock, phiSubst map[*ssa.Phi]string) (sv, bool) {
	if al := c.cellOf(name); al != nil {
		if p := spilledParam(al); p != nil {
			return sv{c.vals[p], p.Type()}, true
		}
		if _, ok := c.locals[al]; ok || c.vals[al] != "" {
			a := c.addrOf(al)
			return sv{c.load(a), a.ty}, true
		}
	}
	// phi at b
	for _, in := range b.Instrs {
		phi, ok := in.(*ssa.Phi)
		if !ok {
			break
		}
		if phi.Comment == name {
			if phiSubst != nil {
				if t, ok := phiSubst[phi]; ok {
					return sv{t, phi.Type()}, true
				}
			}
			return sv{c.vals[phi], phi.Type()}, true
		}
	}
	// a phi of this block named through a debug reference (range-over-int loops)
	for _, in := range b.Instrs {
		dr, ok := in.(*ssa.DebugRef)
		if !ok || dr.IsAddr {
			continue
		}
		obj := dr.Object()
		if obj == nil || obj.Name() != name {
			continue
		}
		if phi, ok := dr.X.(*ssa.Phi); ok && phi.Block() == b {
			if phiSubst != nil {
				if t, ok := phiSubst[phi]; ok {
					return sv{t, phi.Type()}, true
				}
			}
			return sv{c.vals[phi], phi.Type()}, true
		}
	}
	// walk up the dominator tree
	for d := b.Idom(); d != nil; d = d.Idom() {
		if v, ok := c.lastDefIn(name, d); ok {
			return v, true
		}
	}
	// parameters (name0 = the value at entry of a parameter that is reassigned)
	for _, p := range c.fn.Params {
		if p.Name() == name || p.Name()+"0" == name {
			return sv{c.vals[p], p.Type()}, true
		}
	}
	for _, fv := range c.fn.FreeVars {
		if fv.Name() == name {
			pt := fv.Type().(*types.Pointer)
			a := c.addrOfPtr(c.vals[fv], pt.Elem())
			return sv{c.load(a), pt.Elem()}, true
		}
	}
	return sv{}, false
}

// spilledParam: if v is the cell of a parameter that is never reassigned (it was spilled to
// memory only because a closure captures it), the parameter.
func spilledParam(v ssa.Value) *ssa.Parameter {
	al, ok := v.(*ssa.Alloc)
	if !ok || al.Referrers() == nil {
		return nil
	}
	var param *ssa.Parameter
	stores := 0
	for _, r := range *al.Referrers() {
		if st, ok := r.(*ssa.Store); ok && st.Addr == al {
			stores++
			if p, ok := st.Val.(*ssa.Parameter); ok {
				param = p
			}
		}
	}
	if stores == 1 {
		return param
	}
	return nil
}

func (c *FnCtx) lastDefIn(name string, b *ssa.BasicBlock) (sv, bool) {
	for i := len(b.Instrs) - 1; i >= 0; i-- {
		switch in := b.Instrs[i].(type) {
		case *ssa.DebugRef:
			obj := in.Object()
			if obj == nil || obj.Name() != name {
				continue
			}
			if _, isVar := obj.(*types.Var); !isVar {
				continue
			}
			if in.IsAddr {
				if p := spilledParam(in.X); p != nil {
					return sv{c.vals[p], p.Type()}, true
				}
				a := c.addrOf(in.X)
				return sv{c.load(a), a.ty}, true
			}
			if t, ok := c.vals[in.X]; ok {
				return sv{t, in.X.Type()}, true
			}
			if k, ok := in.X.(*ssa.Const); ok {
				return sv{c.constTerm(k), k.Type()}, true
			}
		case *ssa.Phi:
			if in.Comment == name {
				return sv{c.vals[in], in.Type()}, true
			}
		}
	}
	return sv{}, false
}

func (c *FnCtx) invEnv(li *loopInfo, phiSubst map[*ssa.Phi]string, heap heapState) *specEnv {
	env := c.conEnv()
	env.vars = map[string]sv{} // names denote the current values of source variables at the loop head
	env.pkg = c.pkgTypes()
	env.heap = heap
	env.old = c.entry
	env.resolve = func(name string) (sv, bool) {
		// hidden state of the (unique) range iterator advanced in this loop
		if name == "iter_cnt" || name == "iter_pos" {
			var found string
			for h := range li.writes {
				if strings.HasPrefix(h, "IT_") {
					isCnt := strings.HasSuffix(h, "_cnt")
					if isCnt == (name == "iter_cnt") {
						if found != "" && found != h {
							return sv{}, false // ambiguous
						}
						found = h
					}
				}
			}
			if found == "" {
				return sv{}, false
			}
			t, ok := env.heap[found]
			if !ok {
				return sv{}, false
			}
			return sv{t, tInt}, true
		}
		return c.valueAt(name, li.header, phiSubst)
	}
	return env
}

// evalCandidate evaluates a Houdini candidate in the heap state env.heap.
func (c *FnCtx) evalCandidate(cand *candidate, env *specEnv) (string, error) {
	if cand.iterVar != "" {
		v, ok := env.resolve(cand.iterName)
		if !ok {
			return "", fmt.Errorf("no variable %s", cand.iterName)
		}
		cur, ok := env.heap[cand.iterVar]
		if !ok {
			return "", fmt.Errorf("no iterator state")
		}
		return eq(v.t, cur), nil
	}
	if cand.frame == "" {
		return env.evalBool(cand.e)
	}
	h := cand.frame
	cur, ok := env.heap[h]
	if !ok {
		cur = c.entry[h]
	}
	if cur == "" || c.entry[h] == "" {
		return "", fmt.Errorf("no heap %s", h)
	}
	if cur == c.entry[h] {
		return "true", nil
	}
	c.nfresh++
	r := fmt.Sprintf("r!q%d", c.nfresh)
	guards := []string{le("0", r), le(r, c.entry["ALLOC"])}
	for _, name := range cand.except {
		for _, p := range c.fn.Params {
			if p.Name() == name {
				guards = append(guards, not(eq(r, c.refOf(sv{c.vals[p], p.Type()}))))
			}
		}
	}
	return forall([][2]string{{r, "Int"}}, implies(and(guards...), eq(sel(cur, r), sel(c.entry[h], r))), sel(cur, r)), nil
}

func (c *FnCtx) loopClauses(li *loopInfo) []*Clause {
	var out []*Clause
	if c.con != nil {
		for _, cl := range c.con.Clauses {
			if cl.Kind == "invariant" && cl.Loop == li.ordinal {
				out = append(out, cl)
			}
		}
	}
	return out
}

func (e *Engine) isLemmaOrAxiom(name string) bool {
	for _, lem := range e.specs.Lemmas {
		if lem.Name == name {
			return true
		}
	}
	for _, ax := range e.specs.Axioms {
		if ax.Name == name {
			return true
		}
	}
	return false
}

// dropInvariant records a written loop invariant that no longer names variables of the loop it is keyed to
// (the loop was rewritten). The invariant is neither assumed nor checked; the function's remaining
// obligations are still generated, so a postcondition that depended on it fails by name instead of the
// whole function going undecided.
func (c *FnCtx) dropInvariant(cl *Clause, err error) {
	msg := fmt.Sprintf("line %d: %v", cl.Line, err)
	for _, d := range c.dropped {
		if d == msg {
			return
		}
	}
	c.dropped = append(c.dropped, msg)
}

func (c *FnCtx) assumeInvariants(li *loopInfo) {
	env := c.invEnv(li, nil, c.cur)
	if c.con != nil {
		for _, cl := range c.con.Clauses {
			if cl.Kind != "loopuse" || cl.Loop != li.ordinal {
				continue
			}
			if call, ok := cl.E.(*ECall); !ok || !c.eng.isLemmaOrAxiom(call.Fun) {
				c.dropInvariant(cl, fmt.Errorf("use needs a lemma or axiom application"))
				continue
			}
			env.heap = c.cur
			t, err := env.evalBool(cl.E)
			if err != nil {
				c.dropInvariant(cl, err)
				continue
			}
			c.assume(implies(c.reach[li.header], t))
		}
	}
	for _, cl := range c.loopClauses(li) {
		env.heap = c.cur
		t, err := env.evalBool(cl.E)
		if err != nil {
			c.dropInvariant(cl, err)
			continue
		}
		c.assume(implies(c.reach[li.header], t))
	}
	for _, cand := range c.candidatesFor(li) {
		if !cand.alive {
			continue
		}
		env.heap = c.cur
		t, err := c.evalCandidate(cand, env)
		if err != nil {
			cand.alive = false
			continue
		}
		c.assume(implies(c.reach[li.header], t))
	}
}

// checkInvariants emits the obligations for the edge pred -> li.header.
func (c *FnCtx) checkInvariants(li *loopInfo, pred *ssa.BasicBlock) {
	e := c.edge(pred, li.header)
	if e == "" {
		return
	}
	subst := map[*ssa.Phi]string{}
	for _, in := range li.header.Instrs {
		phi, ok := in.(*ssa.Phi)
		if !ok {
			break
		}
		for i, p := range li.header.Preds {
			if p == pred {
				subst[phi] = c.term(phi.Edges[i])
			}
		}
	}
	kind := "invariant-init"
	if c.isBackEdge(pred, li.header) {
		kind = "invariant-preserved"
	}
	env := c.invEnv(li, subst, c.cur)
	for _, cl := range c.loopClauses(li) {
		env.heap = c.cur
		t, err := env.evalBool(cl.E)
		if err != nil {
			c.dropInvariant(cl, err)
			continue
		}
		// do not assume the obligation afterwards for other edges: edges are exclusive anyway
		c.oblige(kind, cl.Props, e, t, li.header.Instrs[0].Pos(), cl, fmt.Sprintf("loop %d: %s", li.ordinal, cl.Text))
	}
	for ci, cand := range c.candidatesFor(li) {
		if !cand.alive {
			continue
		}
		env.heap = c.cur
		t, err := c.evalCandidate(cand, env)
		if err != nil {
			cand.alive = false
			continue
		}
		o := &Oblig{Block: pred, Kind: "houdini", Goal: implies(e, t), Prefix: len(c.ctx), Fn: c.key, Detail: cand.text, ctx: c}
		o.Name = fmt.Sprintf("%s/houdini/loop%d/%d/%s", c.key, li.ordinal, ci, kind)
		c.houdiniObs = append(c.houdiniObs, &houdiniOb{o: o, cand: cand})
	}
}

// ---------- write sets (mod analysis) ----------

type modSet struct {
	heaps map[string]bool
	all   bool
}

func (e *Engine) modSet(fn *ssa.Function) *modSet {
	e.modMu.Lock()
	defer e.modMu.Unlock()
	return e.modSetLocked(fn)
}

func (e *Engine) modSetLocked(fn *ssa.Function) *modSet {
	if ms, ok := e.modCache[fn]; ok {
		return ms
	}
	ms := &modSet{heaps: map[string]bool{}}
	e.modCache[fn] = ms // provisional (recursion: optimistic, then iterate)
	if con := e.contractFor(fn); con != nil {
		if con.ModAll {
			ms.all = true
		}
		for _, m := range con.Modifies {
			ms.heaps[m] = true
		}
		return ms
	}
	if len(fn.Blocks) == 0 {
		// external without contract: may modify whatever is reachable from its arguments
		e.externalMods(fn, ms)
		return ms
	}
	for iter := 0; iter < 3; iter++ {
		before := len(ms.heaps)
		wasAll := ms.all
		for _, b := range fn.Blocks {
			for _, in := range b.Instrs {
				e.instrWrites(nil, in, ms.heaps)
				if ms.heaps["*"] {
					ms.all = true
				}
			}
		}
		if len(ms.heaps) == before && ms.all == wasAll {
			break
		}
	}
	delete(ms.heaps, "*")
	return ms
}

func (e *Engine) externalMods(fn *ssa.Function, ms *modSet) {
	sig := fn.Signature
	add := func(t types.Type) {
		e.reachableHeaps(t, ms, 0)
	}
	if sig.Recv() != nil {
		add(sig.Recv().Type())
	}
	for i := 0; i < sig.Params().Len(); i++ {
		add(sig.Params().At(i).Type())
	}
}

func (e *Engine) reachableHeaps(t types.Type, ms *modSet, depth int) {
	if depth > 4 {
		ms.all = true
		return
	}
	t = types.Unalias(t)
	switch tt := t.Underlying().(type) {
	case *types.Basic:
	case *types.Slice:
		ms.heaps[heapElem(tt.Elem())] = true
		e.reachableHeaps(tt.Elem(), ms, depth+1)
	case *types.Pointer:
		if kindOf(t) == kBig {
			ms.heaps["BIG"] = true
			return
		}
		if st, ok := types.Unalias(tt.Elem()).Underlying().(*types.Struct); ok {
			if n, ok := types.Unalias(tt.Elem()).(*types.Named); ok && n.Obj().Pkg() != nil && !e.ownPkg(n.Obj().Pkg().Path()) {
				// foreign struct: opaque object; its state is not modelled except through contracts
				ms.heaps["OPAQUE"] = true
				return
			}
			for i := 0; i < st.NumFields(); i++ {
				ms.heaps[heapField(tt.Elem(), i)] = true
				e.reachableHeaps(st.Field(i).Type(), ms, depth+1)
			}
			return
		}
		ms.heaps[heapCell(tt.Elem())] = true
		e.reachableHeaps(tt.Elem(), ms, depth+1)
	case *types.Map:
		ms.heaps[heapMapDom(tt)] = true
		ms.heaps[heapMapVal(tt)] = true
		ms.heaps[heapMapLen(tt)] = true
		e.reachableHeaps(tt.Elem(), ms, depth+1)
	case *types.Interface, *types.Signature, *types.Chan:
		ms.all = true
	case *types.Struct:
		for i := 0; i < tt.NumFields(); i++ {
			e.reachableHeaps(tt.Field(i).Type(), ms, depth+1)
		}
	case *types.Array:
		e.reachableHeaps(tt.Elem(), ms, depth+1)
	}
}

// instrWrites adds to w the heaps instruction `in` may write. With c != nil local variables
// (versioned locals, iterator positions) are included under their local names.
func (e *Engine) instrWrites(c *FnCtx, in ssa.Instruction, w map[string]bool) {
	switch x := in.(type) {
	case *ssa.Store:
		e.addrWrites(c, x.Addr, w)
	case *ssa.MapUpdate:
		tt := types.Unalias(x.Map.Type()).Underlying().(*types.Map)
		w[heapMapDom(tt)], w[heapMapVal(tt)], w[heapMapLen(tt)] = true, true, true
	case *ssa.Alloc:
		w["ALLOC"] = true
		et := x.Type().(*types.Pointer).Elem()
		if at, ok := types.Unalias(et).Underlying().(*types.Array); ok {
			w[heapElem(at.Elem())] = true
		} else if c != nil {
			if name, ok := c.locals[x]; ok {
				w[name] = true
			} else {
				e.ptrWrites(et, w)
			}
		} else if x.Heap {
			e.ptrWrites(et, w)
		}
	case *ssa.MakeSlice:
		w["ALLOC"] = true
		w[heapElem(types.Unalias(x.Type()).Underlying().(*types.Slice).Elem())] = true
	case *ssa.MakeMap:
		w["ALLOC"] = true
		tt := types.Unalias(x.Type()).Underlying().(*types.Map)
		w[heapMapDom(tt)], w[heapMapLen(tt)] = true, true
	case *ssa.MakeClosure, *ssa.MakeInterface:
		w["ALLOC"] = true
	case *ssa.Convert:
		w["ALLOC"] = true
		if st, ok := types.Unalias(x.Type()).Underlying().(*types.Slice); ok {
			w[heapElem(st.Elem())] = true
		}
	case *ssa.Range:
		if c != nil {
			if _, ok := types.Unalias(x.X.Type()).Underlying().(*types.Basic); ok {
				w["IT_"+sanitize(x.Name())] = true
			}
			w["IT_"+sanitize(x.Name())+"_cnt"] = true
		}
	case *ssa.Next:
		if c != nil {
			if r, ok := x.Iter.(*ssa.Range); ok {
				if _, ok := types.Unalias(r.X.Type()).Underlying().(*types.Basic); ok {
					w["IT_"+sanitize(r.Name())] = true
				}
				w["IT_"+sanitize(r.Name())+"_cnt"] = true
			}
		}
	case *ssa.Call:
		e.callWrites(c, &x.Call, w)
	case *ssa.Defer:
		e.callWrites(c, &x.Call, w)
	case *ssa.Go:
		w["*"] = true
	}
}

func (e *Engine) ptrWrites(et types.Type, w map[string]bool) {
	if kindOf(types.NewPointer(et)) == kBig {
		w["BIG"] = true
		return
	}
	if st, ok := types.Unalias(et).Underlying().(*types.Struct); ok {
		for i := 0; i < st.NumFields(); i++ {
			w[heapField(et, i)] = true
		}
		return
	}
	w[heapCell(et)] = true
}

func (e *Engine) addrWrites(c *FnCtx, a ssa.Value, w map[string]bool) {
	switch x := a.(type) {
	case *ssa.FieldAddr:
		// field of pointer-held struct object, or of a struct inside something else
		switch b := x.X.(type) {
		case *ssa.IndexAddr, *ssa.FieldAddr:
			e.addrWrites(c, b, w)
			return
		case *ssa.Alloc:
			if c != nil {
				if name, ok := c.locals[b]; ok {
					w[name] = true
					return
				}
			} else if !b.Heap && !escapes(b, 0) {
				return
			}
		}
		pt := types.Unalias(x.X.Type()).Underlying().(*types.Pointer)
		w[heapField(pt.Elem(), x.Field)] = true
	case *ssa.IndexAddr:
		switch tt := types.Unalias(x.X.Type()).Underlying().(type) {
		case *types.Slice:
			w[heapElem(tt.Elem())] = true
		case *types.Pointer:
			at := types.Unalias(tt.Elem()).Underlying().(*types.Array)
			switch b := x.X.(type) {
			case *ssa.FieldAddr:
				e.addrWrites(c, b, w)
			default:
				w[heapElem(at.Elem())] = true
			}
		}
	case *ssa.Alloc:
		if c != nil {
			if name, ok := c.locals[x]; ok {
				w[name] = true
				return
			}
		} else if !x.Heap && !escapes(x, 0) {
			return
		}
		e.ptrWrites(x.Type().(*types.Pointer).Elem(), w)
	case *ssa.Global:
		w["G_"+sanitize(x.Pkg.Pkg.Name()+"_"+x.Name())] = true
	default:
		pt, ok := types.Unalias(a.Type()).Underlying().(*types.Pointer)
		if !ok {
			w["*"] = true
			return
		}
		e.ptrWrites(pt.Elem(), w)
	}
}

func (e *Engine) callWrites(c *FnCtx, call *ssa.CallCommon, w map[string]bool) {
	if b, ok := call.Value.(*ssa.Builtin); ok {
		switch b.Name() {
		case "append":
			w["ALLOC"] = true
			w[heapElem(types.Unalias(call.Args[0].Type()).Underlying().(*types.Slice).Elem())] = true
		case "copy":
			w[heapElem(types.Unalias(call.Args[0].Type()).Underlying().(*types.Slice).Elem())] = true
		case "delete":
			tt := types.Unalias(call.Args[0].Type()).Underlying().(*types.Map)
			w[heapMapDom(tt)], w[heapMapLen(tt)] = true, true
		case "clear":
			w["*"] = true
		}
		return
	}
	w["ALLOC"] = true
	if call.IsInvoke() {
		con := e.specs.Contracts[types.TypeString(types.Unalias(call.Value.Type()), nil)+"."+call.Method.Name()]
		if con == nil {
			con = e.specs.Contracts["iface."+call.Method.Name()]
		}
		if con != nil {
			if con.ModAll {
				w["*"] = true
			}
			for _, m := range con.Modifies {
				w[m] = true
			}
			return
		}
		w["*"] = true
		return
	}
	var callee *ssa.Function
	switch f := call.Value.(type) {
	case *ssa.Function:
		callee = f
	case *ssa.MakeClosure:
		callee = f.Fn.(*ssa.Function)
		if c != nil {
			con := e.contractFor(callee)
			var written map[string]bool
			if con != nil && !con.ModAll {
				written = capturedWritten(con)
			}
			for i, b := range f.Bindings {
				if al, ok := b.(*ssa.Alloc); ok && c.captured[al] && i < len(callee.FreeVars) {
					if con == nil || con.ModAll || written[callee.FreeVars[i].Name()] {
						w[c.locals[al]] = true
					}
				}
			}
		}
	default:
		if c != nil {
			if fn, ok := c.boundFuncs[call.Value]; ok {
				callee = fn
			}
		}
	}
	if callee == nil {
		w["*"] = true
		return
	}
	var ms *modSet
	if c == nil {
		ms = e.modSetLocked(callee)
	} else {
		ms = e.modSet(callee)
	}
	if ms.all {
		w["*"] = true
	}
	for h := range ms.heaps {
		w[h] = true
	}
}
