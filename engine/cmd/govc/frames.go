package main

import (
	"go/token"
	"go/types"
	"sort"
	"strings"

	"golang.org/x/tools/go/ssa"
)

// Write-frame obligations (C05/C06); filled in by the frame sweep.

func (c *FnCtx) checkWrite(a *addr, v string, pos token.Pos)                                {}
func (c *FnCtx) checkMapWrite(tt *types.Map, m, k, v string, pos token.Pos)                 {}
func (c *FnCtx) checkMapDelete(tt *types.Map, m, k string, pos token.Pos)                   {}
func (c *FnCtx) checkAppendWrite(st *types.Slice, s, inPlace, addLen string, pos token.Pos) {}
func (c *FnCtx) checkCopyWrite(st *types.Slice, d, n string, pos token.Pos)                 {}
func (c *FnCtx) jsonLoad(term string, t types.Type, a *addr)                                {}
func (c *FnCtx) jsonLoadMap(term string, tt *types.Map)                                     {}

// checkFrameAtReturn: the callee side of modifies. Every pre-existing object outside the
// modifies clause has the state it had at entry.
func (c *FnCtx) checkFrameAtReturn(x *ssa.Return) {
	if c.con == nil || c.con.ModAll {
		return
	}
	env := c.conEnv()
	env.pkg = c.pkgTypes()
	env.heap = c.entry
	env.resolve = c.resolverAtEntry()
	fr := c.modFrame(c.con, env)
	var hs []string
	for _, h := range c.heapOrder {
		if c.isLocalHeap(h) || h == "ALLOC" || h == "OPAQUE" {
			continue
		}
		if !strings.HasPrefix(c.heapSort[h], "(Array Int") {
			continue
		}
		cur, ok := c.cur[h]
		if !ok || cur == c.entry[h] {
			continue
		}
		hs = append(hs, h)
	}
	sort.Strings(hs)
	props := c.frameProps()
	for _, h := range hs {
		refs, listed := fr[h]
		if listed && refs == nil {
			continue
		}
		r := c.fresh("r")
		c.declare(r, "Int")
		var ne []string
		for _, ref := range refs {
			ne = append(ne, not(eq(r, ref)))
		}
		guard := and(append([]string{c.guard(), le("0", r), le(r, c.entry["ALLOC"])}, ne...)...)
		c.oblige("frame:"+h, props, guard, eq(sel(c.cur[h], r), sel(c.entry[h], r)), x.Pos(), nil, "modifies: pre-existing objects outside the modifies clause are unchanged in "+h)
	}
}

func (c *FnCtx) frameProps() []string {
	if c.opts != nil && c.opts.props != nil {
		return c.opts.props
	}
	return []string{"C05"}
}
