package main

import (
	"go/token"
	"go/types"

	"golang.org/x/tools/go/ssa"
)

// Write-frame obligations (C05/C06); filled in by the frame sweep.

func (c *FnCtx) checkWrite(a *addr, v string, pos token.Pos)                                {}
func (c *FnCtx) checkMapWrite(tt *types.Map, m, k, v string, pos token.Pos)                 {}
func (c *FnCtx) checkMapDelete(tt *types.Map, m, k string, pos token.Pos)                   {}
func (c *FnCtx) checkAppendWrite(st *types.Slice, s, inPlace, addLen string, pos token.Pos) {}
func (c *FnCtx) checkCopyWrite(st *types.Slice, d, n string, pos token.Pos)                 {}
func (c *FnCtx) checkFrameAtReturn(x *ssa.Return)                                           {}
func (c *FnCtx) jsonLoad(term string, t types.Type, a *addr)                                {}
func (c *FnCtx) jsonLoadMap(term string, tt *types.Map)                                     {}
