package main

import (
	"go/token"
	"go/types"
	"sort"
	"strings"

	"golang.org/x/tools/go/ssa"
)

// Write-frame obligations (DESIGN §2.4.2, properties C05 and C06).
//
// Value heaps are the heaps JSON values live in: elements of []any, entries of map[string]any
// and the big integers. In frame-sweep mode every write to a value heap needs an owned target
// (access level, C06): an object allocated during this call, or one the allocator has recorded
// (ghost GH_owned); and at every return the value heaps agree with the entry state on every
// pre-existing, non-owned object (value level, C05).

var valueHeaps = map[string]bool{
	"HE_any": true, "HMD_string_any": true, "HMV_string_any": true, "HML_string_any": true, "BIG": true,
}

func (c *FnCtx) frameMode() bool { return c.opts != nil && c.opts.frames }

func (c *FnCtx) ownedHeap() string { return c.heapGet("GH_owned", "(Array Int Bool)") }

// ownedTarget: the object ref may be written by this call: allocated by it, recorded by the
// allocator, or named by the function's own modifies clause (then the callers answer for it).
func (c *FnCtx) ownedTarget(heap, ref string) string {
	alts := []string{lt(c.entry["ALLOC"], ref), sel(c.ownedHeap(), ref)}
	if c.con != nil && !c.con.ModAll && len(c.con.ModItems) > 0 {
		if c.modRefs == nil {
			env := c.conEnv()
			env.pkg = c.pkgTypes()
			env.heap = c.entry
			env.resolve = c.resolverAtEntry()
			c.modRefs = c.modFrame(c.con, env)
		}
		if refs, ok := c.modRefs[heap]; ok {
			if refs == nil {
				return "true"
			}
			for _, r := range refs {
				alts = append(alts, eq(ref, r))
			}
		}
	}
	return or(alts...)
}

func (c *FnCtx) accessOblige(heap, ref string, pos token.Pos, what string) {
	if !c.frameMode() || !valueHeaps[heap] {
		return
	}
	c.oblige("write-frame", []string{"C06", "C05"}, c.guard(), c.ownedTarget(heap, ref), pos, nil, what+": the written object is allocated by this call or owned by the allocator")
}

func (c *FnCtx) checkWrite(a *addr, v string, pos token.Pos) {
	r := a.root()
	switch r.kind {
	case aElem:
		c.accessOblige(r.heap, r.base, pos, "store to an element of "+r.heap)
	}
}

func (c *FnCtx) checkMapWrite(tt *types.Map, m, k, v string, pos token.Pos) {
	c.accessOblige(heapMapVal(tt), m, pos, "map assignment")
}

func (c *FnCtx) checkMapDelete(tt *types.Map, m, k string, pos token.Pos) {
	c.accessOblige(heapMapDom(tt), m, pos, "map delete")
}

func (c *FnCtx) checkAppendWrite(st *types.Slice, s, inPlace, addLen string, pos token.Pos) {
	hn := heapElem(st.Elem())
	if !c.frameMode() || !valueHeaps[hn] {
		return
	}
	// an append that writes in place (spare capacity) writes the array of its first argument
	c.oblige("write-frame", []string{"C06", "C05"}, and(c.guard(), inPlace, lt("0", addLen)), c.ownedTarget(hn, app("s-arr", s)), pos, nil, "append in place: the written array is allocated by this call or owned by the allocator")
}

func (c *FnCtx) checkCopyWrite(st *types.Slice, d, n string, pos token.Pos) {
	hn := heapElem(st.Elem())
	if !c.frameMode() || !valueHeaps[hn] {
		return
	}
	c.oblige("write-frame", []string{"C06", "C05"}, and(c.guard(), lt("0", n)), c.ownedTarget(hn, app("s-arr", d)), pos, nil, "copy destination: the written array is allocated by this call or owned by the allocator")
}

func (c *FnCtx) jsonLoad(term string, t types.Type, a *addr) {}
func (c *FnCtx) jsonLoadMap(term string, tt *types.Map)      {}

// checkFrameAtReturn: the callee side of modifies. Every pre-existing object outside the
// modifies clause has the state it had at entry. In frame-sweep mode functions without a
// modifies clause get the implicit frame "no pre-existing, non-owned value is changed".
func (c *FnCtx) checkFrameAtReturn(x *ssa.Return) {
	sweepOnly := false
	if c.con == nil || c.con.ModAll {
		// no modifies clause to check. (In the write-frame sweep the per-store access obligations -
		// every store targets a fresh or owned object - already imply that non-owned pre-existing
		// values are unchanged at the return, given that callees respect the same frame; a second,
		// return-time statement of it would need ownership-aware loop invariants and adds nothing.)
		return
	}
	var fr map[string][]string
	if !sweepOnly {
		env := c.conEnv()
		env.pkg = c.pkgTypes()
		env.heap = c.entry
		env.resolve = c.resolverAtEntry()
		fr = c.modFrame(c.con, env)
	}
	var hs []string
	for _, h := range c.heapOrder {
		if c.isLocalHeap(h) || h == "ALLOC" || h == "OPAQUE" || h == "GH_owned" {
			continue
		}
		if !strings.HasPrefix(c.heapSort[h], "(Array Int") {
			continue
		}
		if sweepOnly && !valueHeaps[h] {
			continue
		}
		cur, ok := c.cur[h]
		if !ok || cur == c.entry[h] {
			continue
		}
		hs = append(hs, h)
	}
	sort.Strings(hs)
	props := c.frameProps()
	for _, h := range hs {
		refs, listed := fr[h]
		if listed && refs == nil {
			continue
		}
		r := c.fresh("r")
		c.declare(r, "Int")
		var ne []string
		for _, ref := range refs {
			ne = append(ne, not(eq(r, ref)))
		}
		if c.frameMode() && valueHeaps[h] {
			// objects recorded by the allocator may be updated in place
			c.heapDecl("GH_owned", "(Array Int Bool)")
			ne = append(ne, not(sel(c.entry["GH_owned"], r)))
		}
		guard := and(append([]string{c.guard(), le("0", r), le(r, c.entry["ALLOC"])}, ne...)...)
		c.oblige("frame:"+h, props, guard, eq(sel(c.cur[h], r), sel(c.entry[h], r)), x.Pos(), nil, "pre-existing objects outside the modifies clause are unchanged in "+h)
	}
}

func (c *FnCtx) frameProps() []string {
	if c.frameMode() {
		return []string{"C05", "C06"}
	}
	if c.opts != nil && c.opts.props != nil {
		return c.opts.props
	}
	return []string{"C05"}
}

// assumeCalleeFrame: in frame-sweep mode an uncontracted callee of the swept files is assumed
// to respect the implicit frame it is itself verified against (modular, by induction on calls).
func (c *FnCtx) assumeCalleeFrame(callee *ssa.Function, before heapState, allocBefore string) {
	if !c.frameMode() || callee == nil || !c.eng.inFrameScope(callee) {
		return
	}
	c.heapDecl("GH_owned", "(Array Int Bool)")
	ownedBefore, ok := before["GH_owned"]
	if !ok {
		ownedBefore = c.entry["GH_owned"]
	}
	var hs []string
	for h := range valueHeaps {
		hs = append(hs, h)
	}
	sort.Strings(hs)
	for _, h := range hs {
		if _, ok := c.heapSort[h]; !ok {
			continue
		}
		b, ok := before[h]
		if !ok {
			b = c.entry[h]
		}
		cur := c.cur[h]
		if cur == "" || cur == b {
			continue
		}
		r := c.fresh("r")
		c.assume(forall([][2]string{{r, "Int"}}, implies(and(le("0", r), le(r, allocBefore), not(sel(ownedBefore, r))), eq(sel(cur, r), sel(b, r))), sel(cur, r)))
	}
	// ownership only grows, and only by objects allocated during the call
	if cur := c.cur["GH_owned"]; cur != "" && cur != ownedBefore {
		r := c.fresh("r")
		c.assume(forall([][2]string{{r, "Int"}}, implies(and(le("0", r), le(r, allocBefore)), eq(sel(cur, r), sel(ownedBefore, r))), sel(cur, r)))
	}
}

var frameScopeFiles = map[string]bool{"func.go": true, "operator.go": true, "compare.go": true, "encoder.go": true, "type.go": true, "iter.go": true, "normalize.go": true}

func (e *Engine) inFrameScope(fn *ssa.Function) bool {
	if !e.ownPkgFn(fn) {
		return false
	}
	return frameScopeFiles[e.relFile(fn)]
}

// mutatingExternals: externals that write through an argument; index of the written argument.
var mutatingExternals = map[string]int{
	"sort.Slice": 0, "sort.SliceStable": 0, "sort.Strings": 0, "sort.Sort": 0, "sort.Stable": 0,
	"slices.Sort": 0, "slices.SortFunc": 0, "slices.SortStableFunc": 0, "slices.Reverse": 0,
	"maps.Copy": 0,
}
