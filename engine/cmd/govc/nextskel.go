package main

import (
	"fmt"
	"go/ast"
	"go/token"
	"go/types"
	"os"
	"path/filepath"
	"strings"

	"golang.org/x/tools/go/ssa"
)

// Structural obligations on the control skeleton of (*env).Next (DESIGN §3 C07, O1 and O5).
// They are facts about the CFG of the real function, checked without a solver.
type skelOb struct {
	name, detail string
	ok           bool
	why          string
}

func (r *report) nextSkeleton() {
	fn := r.eng.funcs["gojq.(*env).Next"]
	add := func(o skelOb) {
		r.extraObl++
		if o.ok {
			r.extraOK++
		} else {
			dir := filepath.Join(r.verif, "replays", r.id)
			os.MkdirAll(dir, 0o755)
			path := filepath.Join(dir, fileSafe.ReplaceAllString(o.name, "_")+".txt")
			os.WriteFile(path, []byte(fmt.Sprintf("property: %s\nobligation: %s\n%s\nfailed: %s\nno counterexample: structural obligation on the CFG of (*env).Next\n", r.id, o.name, o.detail, o.why)), 0o644)
			fmt.Printf("VIOLATION property=%s replay=%s obligation=%s status=structural no-failing-input-found\n", r.id, path, o.name)
			r.violations = append(r.violations, o.name)
			r.structFail = true
		}
		r.extraSamples = append(r.extraSamples, map[string]any{"obligation": o.name, "kind": "structural (CFG of the real function, no solver)", "clause": o.detail, "status": map[bool]string{true: "discharged", false: "violated: " + o.why}[o.ok]})
	}
	if fn == nil || len(fn.Blocks) == 0 {
		r.undecided = append(r.undecided, "gojq.(*env).Next: function not found")
		return
	}
	// poll block: the non-blocking select
	var poll *ssa.BasicBlock
	var sel *ssa.Select
	var dispatch *ssa.BasicBlock
	for _, b := range fn.Blocks {
		for _, in := range b.Instrs {
			switch x := in.(type) {
			case *ssa.Select:
				if !x.Blocking && poll == nil {
					poll, sel = b, x
				}
			case *ssa.FieldAddr:
				if dispatch == nil {
					if strings.HasSuffix(x.X.Type().String(), "gojq.code") && fieldName(x) == "op" {
						dispatch = b
					}
				}
			}
		}
	}
	if poll == nil || dispatch == nil {
		add(skelOb{name: "gojq.(*env).Next/skeleton/poll-exists", detail: "the interpreter loop polls ctx.Done() with a non-blocking select and dispatches on code.op", ok: false, why: "no non-blocking select or no dispatch on code.op found"})
		return
	}
	add(skelOb{name: "gojq.(*env).Next/skeleton/poll-exists", detail: "the interpreter loop polls ctx.Done() with a non-blocking select and dispatches on code.op", ok: true})
	// guard block: the (unique) predecessor of the poll block, branching on hasCtx
	var guard *ssa.BasicBlock
	if len(poll.Preds) == 1 {
		guard = poll.Preds[0]
	}
	okGuard := guard != nil
	why := ""
	if okGuard {
		ifi, isIf := guard.Instrs[len(guard.Instrs)-1].(*ssa.If)
		if !isIf || guard.Succs[0] != poll {
			okGuard, why = false, "the poll is not the true-successor of a single test"
		} else if !isHasCtx(ifi.Cond) {
			okGuard, why = false, "the poll is guarded by something other than hasCtx (env.ctx != context.Background())"
		}
	} else {
		why = "the poll block has several predecessors"
	}
	add(skelOb{name: "gojq.(*env).Next/skeleton/O1-poll-guard", detail: "O1: the poll is guarded only by hasCtx", ok: okGuard, why: why})
	if !okGuard {
		return
	}
	// O1: every cycle through the dispatch block passes through the guard block
	cyc := onCycleWithout(fn, dispatch, guard)
	add(skelOb{name: "gojq.(*env).Next/skeleton/O1-poll-dominates-dispatch", detail: "O1: every cycle of the CFG through the opcode dispatch passes through the context poll (each VM step polls)", ok: !cyc, why: "there is a cycle through the dispatch block that avoids the poll guard"})
	// the guard must lie between loop head and dispatch: guard dominates dispatch
	add(skelOb{name: "gojq.(*env).Next/skeleton/O1-poll-before-dispatch", detail: "O1: the poll guard dominates the dispatch", ok: guard.Dominates(dispatch), why: "the poll guard does not dominate the dispatch block"})
	// O5: transparency of the not-done path: guard -> poll -> ... -> dispatch contains no store and
	// no call other than Done()
	bad := ""
	seen := map[*ssa.BasicBlock]bool{}
	var walk func(b *ssa.BasicBlock)
	walk = func(b *ssa.BasicBlock) {
		if seen[b] || b == dispatch {
			return
		}
		seen[b] = true
		for _, in := range b.Instrs {
			switch x := in.(type) {
			case *ssa.Store, *ssa.MapUpdate, *ssa.Send, *ssa.Go, *ssa.Defer:
				bad = fmt.Sprintf("%T in block %d", in, b.Index)
			case *ssa.Call:
				if x.Call.IsInvoke() && x.Call.Method.Name() == "Done" {
					continue
				}
				bad = fmt.Sprintf("call %s in block %d", x.Call.Value.Name(), b.Index)
			}
		}
		for _, s := range b.Succs {
			walk(s)
		}
	}
	// successors of the poll on the not-done side: all successors that can reach dispatch without returning
	notDone := notDoneSuccs(poll, sel, dispatch)
	for _, s := range notDone {
		walk(s)
	}
	// the poll block itself
	for _, in := range poll.Instrs {
		switch x := in.(type) {
		case *ssa.Store, *ssa.MapUpdate:
			bad = fmt.Sprintf("%T in the poll block", in)
		case *ssa.Call:
			if !(x.Call.IsInvoke() && x.Call.Method.Name() == "Done") {
				bad = "call " + x.Call.Value.Name() + " in the poll block"
			}
		}
	}
	add(skelOb{name: "gojq.(*env).Next/skeleton/O5-poll-transparent", detail: "O5: the not-done branch of the poll performs no store and no call other than Done(): an uncancelled run executes the same steps", ok: bad == "" && len(notDone) > 0, why: bad})
	// handler-local loops are range loops
	badLoop := ""
	for _, b := range fn.Blocks {
		for _, s := range b.Succs {
			if s.Dominates(b) { // back edge b -> s
				if loopContains(fn, s, b, dispatch) {
					continue
				}
				if !strings.HasPrefix(s.Comment, "range") {
					badLoop = fmt.Sprintf("loop headed by block %d (%s) is not a range loop", s.Index, s.Comment)
				}
			}
		}
	}
	add(skelOb{name: "gojq.(*env).Next/skeleton/O1-handler-loops-bounded", detail: "O1: every cycle that avoids the dispatch is a range loop over an int, slice or map (bounded by its operand)", ok: badLoop == "", why: badLoop})
	// O7: re-entry guard. After Next has emitted an error (or a value) it is resumed at the same pc
	// with backtrack set; a handler that can emit must therefore begin by leaving when backtrack is set.
	ok7, why7, n7 := reentryGuards(fn)
	add(skelOb{name: "gojq.(*env).Next/skeleton/O7-reentry-guard", detail: fmt.Sprintf("O7: every opcode handler that assigns a non-nil err or returns a value (%d handlers; opiter, whose re-entry is the iteration itself, excepted) begins with `if backtrack { ... }` ending in a break or goto: advancing an iterator that has emitted an error re-enters the handler without re-running it", n7), ok: ok7, why: why7})

}

func fieldName(x *ssa.FieldAddr) string {
	pt, ok := x.X.Type().Underlying().(*types.Pointer)
	if !ok {
		return ""
	}
	st, ok := pt.Elem().Underlying().(*types.Struct)
	if !ok {
		return ""
	}
	return st.Field(x.Field).Name()
}

func isHasCtx(v ssa.Value) bool {
	// hasCtx is computed once as env.ctx != context.Background()
	b, ok := v.(*ssa.BinOp)
	if !ok {
		return false
	}
	for _, op := range []ssa.Value{b.X, b.Y} {
		if c, ok := op.(*ssa.Call); ok {
			if f := c.Call.StaticCallee(); f != nil && f.Name() == "Background" {
				return true
			}
		}
	}
	return false
}

// onCycleWithout: is d on a cycle in the CFG with block `without` removed?
func onCycleWithout(fn *ssa.Function, d, without *ssa.BasicBlock) bool {
	seen := map[*ssa.BasicBlock]bool{}
	var stack []*ssa.BasicBlock
	for _, s := range d.Succs {
		if s != without {
			stack = append(stack, s)
		}
	}
	for len(stack) > 0 {
		x := stack[len(stack)-1]
		stack = stack[:len(stack)-1]
		if x == d {
			return true
		}
		if seen[x] {
			continue
		}
		seen[x] = true
		for _, s := range x.Succs {
			if s != without {
				stack = append(stack, s)
			}
		}
	}
	return false
}

func notDoneSuccs(poll *ssa.BasicBlock, sel *ssa.Select, dispatch *ssa.BasicBlock) []*ssa.BasicBlock {
	var out []*ssa.BasicBlock
	for _, s := range poll.Succs {
		if reaches(s, dispatch, map[*ssa.BasicBlock]bool{}) && !hasReturnBefore(s, dispatch) {
			out = append(out, s)
		}
	}
	return out
}

func reaches(b, target *ssa.BasicBlock, seen map[*ssa.BasicBlock]bool) bool {
	if b == target {
		return true
	}
	if seen[b] {
		return false
	}
	seen[b] = true
	for _, s := range b.Succs {
		if reaches(s, target, seen) {
			return true
		}
	}
	return false
}

// hasReturnBefore: b itself ends in a return (the done branch)
func hasReturnBefore(b, dispatch *ssa.BasicBlock) bool {
	if b == dispatch {
		return false
	}
	_, isRet := b.Instrs[len(b.Instrs)-1].(*ssa.Return)
	return isRet
}

// loopContains: does the natural loop of back edge tail->head contain block x?
func loopContains(fn *ssa.Function, head, tail, x *ssa.BasicBlock) bool {
	in := map[*ssa.BasicBlock]bool{head: true}
	stack := []*ssa.BasicBlock{tail}
	for len(stack) > 0 {
		b := stack[len(stack)-1]
		stack = stack[:len(stack)-1]
		if in[b] {
			continue
		}
		in[b] = true
		for _, p := range b.Preds {
			stack = append(stack, p)
		}
	}
	return in[x]
}

// reentryGuards works on the syntax of the real function (the switch over code.op).
func reentryGuards(fn *ssa.Function) (bool, string, int) {
	fd, _ := fn.Syntax().(*ast.FuncDecl)
	if fd == nil || fd.Body == nil {
		return false, "no syntax for (*env).Next", 0
	}
	var sw *ast.SwitchStmt
	ast.Inspect(fd.Body, func(n ast.Node) bool {
		if x, ok := n.(*ast.SwitchStmt); ok && sw == nil {
			if se, ok := x.Tag.(*ast.SelectorExpr); ok && se.Sel.Name == "op" {
				sw = x
				return false
			}
		}
		return true
	})
	if sw == nil {
		return false, "no switch over code.op", 0
	}
	// the interpreter's two state variables, found by their role so that renaming them is harmless:
	// the local initialised from env.backtrack, and the first local declared with type error
	btName, errName := "backtrack", "err"
	foundBt, foundErr := false, false
	for _, st := range fd.Body.List {
		switch x := st.(type) {
		case *ast.AssignStmt:
			if x.Tok == token.DEFINE && len(x.Lhs) == len(x.Rhs) && !foundBt {
				for i, rh := range x.Rhs {
					if se, ok := rh.(*ast.SelectorExpr); ok && se.Sel.Name == "backtrack" {
						if id, ok := x.Lhs[i].(*ast.Ident); ok {
							btName, foundBt = id.Name, true
						}
					}
				}
			}
		case *ast.DeclStmt:
			if gd, ok := x.Decl.(*ast.GenDecl); ok && gd.Tok == token.VAR && !foundErr {
				for _, sp := range gd.Specs {
					if vs, ok := sp.(*ast.ValueSpec); ok && len(vs.Names) == 1 {
						if id, ok := vs.Type.(*ast.Ident); ok && id.Name == "error" {
							errName, foundErr = vs.Names[0].Name, true
						}
					}
				}
			}
		}
	}
	isNil := func(e ast.Expr) bool { id, ok := e.(*ast.Ident); return ok && id.Name == "nil" }
	emits := func(stmts []ast.Stmt) string {
		what := ""
		for _, st := range stmts {
			ast.Inspect(st, func(n ast.Node) bool {
				switch x := n.(type) {
				case *ast.FuncLit:
					return false
				case *ast.ReturnStmt:
					what = "returns a value"
				case *ast.AssignStmt:
					for i, l := range x.Lhs {
						if id, ok := l.(*ast.Ident); ok && id.Name == errName && x.Tok == token.ASSIGN {
							if len(x.Rhs) == len(x.Lhs) && isNil(x.Rhs[i]) {
								continue
							}
							what = "assigns err"
						}
					}
				}
				return true
			})
		}
		return what
	}
	guarded := func(st ast.Stmt) bool {
		ifs, ok := st.(*ast.IfStmt)
		if !ok || ifs.Init != nil || ifs.Else != nil {
			return false
		}
		if id, ok := ifs.Cond.(*ast.Ident); !ok || id.Name != btName {
			return false
		}
		if len(ifs.Body.List) == 0 {
			return false
		}
		br, ok := ifs.Body.List[len(ifs.Body.List)-1].(*ast.BranchStmt)
		return ok && (br.Tok == token.BREAK || br.Tok == token.GOTO) && br.Label != nil
	}
	n := 0
	for _, c := range sw.Body.List {
		cc := c.(*ast.CaseClause)
		if len(cc.List) == 0 || len(cc.Body) == 0 {
			continue
		}
		names := []string{}
		iter := false
		for _, e := range cc.List {
			if id, ok := e.(*ast.Ident); ok {
				names = append(names, id.Name)
				if id.Name == "opiter" {
					iter = true
				}
			}
		}
		if iter {
			continue
		}
		rest := cc.Body
		g := guarded(cc.Body[0])
		if g {
			rest = cc.Body[1:]
		}
		w := emits(rest)
		if w == "" {
			continue
		}
		n++
		if !g {
			return false, fmt.Sprintf("the handler of %s %s but does not begin with a backtrack guard that leaves it", strings.Join(names, ", "), w), n
		}
	}
	if n == 0 {
		return false, "no emitting handler found (the scan no longer matches the function)", 0
	}
	return true, "", n
}
