package main

import (
	"fmt"
	"go/types"
	"regexp"
	"sort"
	"strings"
)

// valKind classifies a Go type by the constructor of Val that carries it when boxed.
type valKind int

const (
	kOther valKind = iota
	kBool
	kInt
	kF64
	kStr
	kSlice // []any
	kMap   // map[string]any
	kBig   // *big.Int
	kNum   // json.Number
)

func isEmptyInterface(t types.Type) bool {
	it, ok := types.Unalias(t).Underlying().(*types.Interface)
	return ok && it.NumMethods() == 0 && !isTypeParam(t)
}

func isTypeParam(t types.Type) bool {
	_, ok := types.Unalias(t).(*types.TypeParam)
	return ok
}

func isInterface(t types.Type) bool {
	_, ok := types.Unalias(t).Underlying().(*types.Interface)
	return ok
}

func namedIs(t types.Type, pkg, name string) bool {
	n, ok := types.Unalias(t).(*types.Named)
	if !ok {
		return false
	}
	o := n.Obj()
	return o.Name() == name && o.Pkg() != nil && o.Pkg().Path() == pkg
}

func kindOf(t types.Type) valKind {
	t = types.Unalias(t)
	switch tt := t.(type) {
	case *types.Basic:
		switch tt.Kind() {
		case types.Bool, types.UntypedBool:
			return kBool
		case types.Int:
			return kInt
		case types.Float64:
			return kF64
		case types.String:
			return kStr
		}
	case *types.Slice:
		if isEmptyInterface(tt.Elem()) {
			return kSlice
		}
	case *types.Map:
		if b, ok := types.Unalias(tt.Key()).(*types.Basic); ok && b.Kind() == types.String && isEmptyInterface(tt.Elem()) {
			return kMap
		}
	case *types.Pointer:
		if namedIs(tt.Elem(), "math/big", "Int") {
			return kBig
		}
	case *types.Named:
		if namedIs(tt, "encoding/json", "Number") {
			return kNum
		}
	}
	return kOther
}

var nonAlnum = regexp.MustCompile(`[^A-Za-z0-9]+`)

func shortQual(p *types.Package) string { return p.Name() }

// typeKey is a deterministic identifier-safe name of a type, used to name heaps and sorts.
func typeKey(t types.Type) string {
	s := types.TypeString(types.Unalias(t), shortQual)
	s = strings.ReplaceAll(s, "interface{}", "any")
	s = strings.ReplaceAll(s, "*", "P")
	s = strings.ReplaceAll(s, "[]", "L")
	s = nonAlnum.ReplaceAllString(s, "_")
	return strings.Trim(s, "_")
}

type structSort struct {
	name   string
	st     *types.Struct
	fields []string // accessor names
	fsorts []string
	order  int
}

// sorts is the registry of SMT sorts derived from Go types.
type sorts struct {
	structs  map[string]*structSort // by sort name
	byType   map[string]string      // types.TypeString -> sort name (struct only)
	typeIDs  map[string]int
	typeByID map[int]types.Type
	arrays   map[string]bool
	nstruct  int
}

func newSorts() *sorts {
	return &sorts{structs: map[string]*structSort{}, byType: map[string]string{}, typeIDs: map[string]int{}, typeByID: map[int]types.Type{}, arrays: map[string]bool{}}
}

func (s *sorts) typeID(t types.Type) int {
	k := types.TypeString(types.Unalias(t), nil)
	if id, ok := s.typeIDs[k]; ok {
		return id
	}
	id := 100 + len(s.typeIDs)
	s.typeIDs[k] = id
	s.typeByID[id] = t
	return id
}

type unsupported struct{ why string }

func unsupp(format string, args ...any) {
	panic(unsupported{fmt.Sprintf(format, args...)})
}

func (s *sorts) sortOf(t types.Type) string {
	t = types.Unalias(t)
	switch tt := t.Underlying().(type) {
	case *types.Basic:
		switch {
		case tt.Info()&types.IsBoolean != 0:
			return "Bool"
		case tt.Info()&types.IsInteger != 0:
			return "Int"
		case tt.Info()&types.IsFloat != 0:
			return "F64"
		case tt.Info()&types.IsString != 0:
			return "Str"
		case tt.Kind() == types.UnsafePointer:
			return "Int"
		case tt.Kind() == types.UntypedNil:
			return "Val"
		}
		unsupp("basic type %s", tt)
	case *types.Pointer, *types.Map, *types.Chan, *types.Signature:
		return "Int"
	case *types.Slice:
		return "Slice"
	case *types.Interface:
		if isTypeParam(t) {
			unsupp("type parameter %s", t)
		}
		return "Val"
	case *types.Array:
		return "(Array Int " + s.sortOf(tt.Elem()) + ")"
	case *types.Struct:
		return s.structSortOf(t, tt)
	case *types.Tuple:
		unsupp("tuple sort")
	}
	unsupp("type %s", t)
	return ""
}

func (s *sorts) structSortOf(t types.Type, st *types.Struct) string {
	key := types.TypeString(t, nil)
	if n, ok := s.byType[key]; ok {
		return n
	}
	var name string
	if _, ok := t.(*types.Named); ok {
		name = "S_" + typeKey(t)
	} else {
		s.nstruct++
		name = fmt.Sprintf("S_anon%d", s.nstruct)
	}
	for s.structs[name] != nil {
		name += "x"
	}
	s.byType[key] = name
	ss := &structSort{name: name, st: st}
	for i := 0; i < st.NumFields(); i++ {
		fname := st.Field(i).Name()
		if fname == "_" {
			fname = fmt.Sprintf("_blank%d", i)
		}
		ss.fields = append(ss.fields, fmt.Sprintf("%s.%s", name, fname))
		ss.fsorts = append(ss.fsorts, s.sortOf(st.Field(i).Type()))
	}
	ss.order = len(s.structs)
	s.structs[name] = ss
	return name
}

func (s *sorts) structInfo(t types.Type) *structSort {
	st, ok := types.Unalias(t).Underlying().(*types.Struct)
	if !ok {
		unsupp("not a struct: %s", t)
	}
	return s.structs[s.structSortOf(types.Unalias(t), st)]
}

func (s *sorts) declText() string {
	var list []*structSort
	for _, ss := range s.structs {
		list = append(list, ss)
	}
	sort.Slice(list, func(i, j int) bool { return list[i].order < list[j].order })
	var sb strings.Builder
	for _, ss := range list {
		if len(ss.fields) == 0 {
			fmt.Fprintf(&sb, "(declare-datatypes ((%s 0)) (((mk-%s))))\n", ss.name, ss.name)
			continue
		}
		fmt.Fprintf(&sb, "(declare-datatypes ((%s 0)) (((mk-%s", ss.name, ss.name)
		for i := range ss.fields {
			fmt.Fprintf(&sb, " (%s %s)", ss.fields[i], ss.fsorts[i])
		}
		sb.WriteString("))))\n")
	}
	return sb.String()
}

func intRange(t types.Type) (lo, hi string, ok bool) {
	b, isB := types.Unalias(t).Underlying().(*types.Basic)
	if !isB || b.Info()&types.IsInteger == 0 {
		return "", "", false
	}
	switch b.Kind() {
	case types.Int, types.Int64, types.UntypedInt:
		return minInt64S, maxInt64S, true
	case types.Int32, types.UntypedRune:
		return "(- 2147483648)", "2147483647", true
	case types.Int16:
		return "(- 32768)", "32767", true
	case types.Int8:
		return "(- 128)", "127", true
	case types.Uint, types.Uint64, types.Uintptr:
		return "0", "18446744073709551615", true
	case types.Uint32:
		return "0", "4294967295", true
	case types.Uint16:
		return "0", "65535", true
	case types.Uint8:
		return "0", "255", true
	}
	return "", "", false
}

func wrapFn(t types.Type) string {
	b, isB := types.Unalias(t).Underlying().(*types.Basic)
	if !isB {
		return ""
	}
	switch b.Kind() {
	case types.Int, types.Int64, types.UntypedInt:
		return "wrap64"
	case types.Int32, types.UntypedRune:
		return "wrap32"
	case types.Int16:
		return "wrap16"
	case types.Int8:
		return "wrap8"
	case types.Uint, types.Uint64, types.Uintptr:
		return "wrapu64"
	case types.Uint32:
		return "wrapu32"
	case types.Uint16:
		return "wrapu16"
	case types.Uint8:
		return "wrapu8"
	}
	return ""
}

// encode a value of SMT sort `srt` into an Int payload (for VOther boxing).
func encPayload(srt, term string) string {
	switch srt {
	case "Int":
		return term
	case "Bool":
		return app("enc_bool", term)
	case "F64":
		return app("enc_f64", term)
	case "Str":
		return app("enc_str", term)
	case "Slice":
		return app("enc_slice", term)
	case "Val":
		return app("enc_val", term)
	}
	return ""
}

func decPayload(srt, term string) string {
	switch srt {
	case "Int":
		return term
	case "Bool":
		return app("dec_bool", term)
	case "F64":
		return app("dec_f64", term)
	case "Str":
		return app("dec_str", term)
	case "Slice":
		return app("dec_slice", term)
	case "Val":
		return app("dec_val", term)
	}
	return ""
}
