package main

import (
	"fmt"
	"go/types"
	"regexp"
	"strings"

	"golang.org/x/tools/go/ssa"
)

// sv is a typed spec value.
type sv struct {
	t  string
	ty types.Type
}

var (
	tInt  = types.Typ[types.Int]
	tBool = types.Typ[types.Bool]
	tStr  = types.Typ[types.String]
	tF64  = types.Typ[types.Float64]
)

type specEnv struct {
	c       *FnCtx
	vars    map[string]sv
	resolve func(name string) (sv, bool)
	heap    heapState
	old     heapState
	pkg     *types.Package
	depth   int
	inPat   bool // evaluating a trigger pattern: no conditional terms
}

var identRe = regexp.MustCompile(`^[A-Za-z_][A-Za-z0-9_]*$`)

type specErr struct{ msg string }

func specFail(format string, args ...any) {
	panic(specErr{fmt.Sprintf(format, args...)})
}

func (e *specEnv) child() *specEnv {
	n := *e
	n.vars = map[string]sv{}
	for k, v := range e.vars {
		n.vars[k] = v
	}
	return &n
}

// evalBool evaluates a clause to an SMT Bool term; errors are returned (the contract does not
// attach).
func (e *specEnv) evalBool(x Expr) (t string, err error) {
	defer func() {
		if r := recover(); r != nil {
			if se, ok := r.(specErr); ok {
				err = fmt.Errorf("%s", se.msg)
				return
			}
			if u, ok := r.(unsupported); ok {
				err = fmt.Errorf("%s", u.why)
				return
			}
			panic(r)
		}
	}()
	saved := e.c.cur
	e.c.cur = e.heap.clone()
	defer func() { e.c.cur = saved }()
	v := e.eval(x)
	if !isBoolT(v.ty) {
		specFail("clause is not boolean")
	}
	return v.t, nil
}

func isBoolT(t types.Type) bool { return basicInfo(t)&types.IsBoolean != 0 }
func isIntT(t types.Type) bool  { return basicInfo(t)&types.IsInteger != 0 }
func isStrT(t types.Type) bool  { return basicInfo(t)&types.IsString != 0 }
func isF64T(t types.Type) bool  { return basicInfo(t)&types.IsFloat != 0 }

func (e *specEnv) eval(x Expr) sv {
	c := e.c
	switch n := x.(type) {
	case *EInt:
		return sv{bigLit(n.Val), tInt}
	case *EBool:
		if n.Val {
			return sv{"true", tBool}
		}
		return sv{"false", tBool}
	case *EStr:
		return sv{c.strLit(n.Val), tStr}
	case *ENil:
		return sv{"VNil", types.Typ[types.UntypedNil]}
	case *EIdent:
		if v, ok := e.vars[n.Name]; ok {
			return v
		}
		if e.resolve != nil {
			if v, ok := e.resolve(n.Name); ok {
				return v
			}
		}
		switch n.Name {
		case "MaxInt":
			return sv{maxInt64S, tInt}
		case "MinInt":
			return sv{minInt64S, tInt}
		}
		// package-level constant
		if e.pkg != nil {
			if obj, ok := e.pkg.Scope().Lookup(n.Name).(*types.Const); ok {
				if isIntT(obj.Type()) || basicInfo(obj.Type())&types.IsUntyped != 0 {
					return sv{obj.Val().ExactString(), tInt}
				}
				if isStrT(obj.Type()) {
					s := obj.Val().ExactString()
					return sv{c.strLit(strings.Trim(s, `"`)), tStr}
				}
			}
		}
		specFail("unknown name %q", n.Name)
	case *EUnary:
		v := e.eval(n.X)
		switch n.Op {
		case "!":
			return sv{not(v.t), tBool}
		case "-":
			return sv{app("-", v.t), tInt}
		}
	case *EBinary:
		return e.evalBinary(n)
	case *ECond:
		cnd := e.eval(n.C)
		a, b := e.eval(n.A), e.eval(n.B)
		a, b = e.unify(a, b)
		return sv{ite(cnd.t, a.t, b.t), a.ty}
	case *EOld:
		if e.old == nil {
			specFail("old() not available here")
		}
		saved := c.cur
		c.cur = e.old.clone()
		v := e.eval(n.X)
		c.cur = saved
		return v
	case *EIs:
		v := e.eval(n.X)
		if !isInterface(v.ty) {
			specFail("'is' on non-interface")
		}
		if n.Type == "nil" {
			return sv{eq(v.t, "VNil"), tBool}
		}
		ty := c.eng.resolveType(e.pkg, n.Type)
		return sv{c.isType(ty, v.t), tBool}
	case *EAssert:
		v := e.eval(n.X)
		ty := c.eng.resolveType(e.pkg, n.Type)
		if !isInterface(v.ty) {
			// the name denotes a variable that already has the asserted type (the variable of a type
			// switch shadows the interface-typed one of the same name)
			if types.Identical(types.Unalias(v.ty), types.Unalias(ty)) {
				return v
			}
			specFail("type assertion on a value of type %s", v.ty)
		}
		return sv{c.unbox(ty, v.t), ty}
	case *ESel:
		return e.evalSel(n)
	case *EIndex:
		b := e.eval(n.X)
		i := e.eval(n.I)
		return e.index(b, i)
	case *ESlice:
		b := e.eval(n.X)
		var lo, hi string
		if n.Lo != nil {
			lo = e.eval(n.Lo).t
		} else {
			lo = "0"
		}
		switch tt := types.Unalias(b.ty).Underlying().(type) {
		case *types.Basic:
			if n.Hi != nil {
				hi = e.eval(n.Hi).t
			} else {
				hi = app("slen", b.t)
			}
			return sv{app("ssub", b.t, lo, hi), b.ty}
		case *types.Slice:
			_ = tt
			if n.Hi != nil {
				hi = e.eval(n.Hi).t
			} else {
				hi = app("s-len", b.t)
			}
			return sv{app("mk-slice", app("s-arr", b.t), add(app("s-off", b.t), lo), sub(hi, lo), sub(app("s-cap", b.t), lo)), b.ty}
		}
		specFail("cannot slice %s", b.ty)
	case *EQuant:
		ne := e.child()
		var vars [][2]string
		var guards []string
		for _, qv := range n.Vars {
			ty := c.eng.resolveType(e.pkg, qv.Type)
			e.c.nfresh++
			name := fmt.Sprintf("%s!q%d", qv.Name, e.c.nfresh)
			vars = append(vars, [2]string{name, c.sorts.sortOf(ty)})
			ne.vars[qv.Name] = sv{name, ty}
			// bound variables range over type-valid values only (spec ints are mathematical)
			switch types.Unalias(ty).Underlying().(type) {
			case *types.Slice:
				guards = append(guards, app("validSlice", name))
			case *types.Interface:
				guards = append(guards, app("validVal", name))
			case *types.Pointer, *types.Map:
				guards = append(guards, le("0", name))
			}
		}
		body := ne.eval(n.Body)
		if len(guards) > 0 {
			if n.Forall {
				body.t = implies(and(guards...), body.t)
			} else {
				body.t = and(append(guards, body.t)...)
			}
		}
		var pats []string
		ne.inPat = true
		for _, p := range n.Pats {
			pt := ne.eval(p).t
			if strings.Contains(pt, "(ite ") {
				// conditional terms are not allowed in patterns (z3 prints a warning, cvc5 rejects the
				// query): the contract must name an unconditional trigger term
				specFail("trigger %s contains a conditional term", pt)
			}
			pats = append(pats, pt)
		}
		ne.inPat = false
		if n.Forall {
			if len(pats) > 0 {
				return sv{forall(vars, body.t, strings.Join(pats, " ")), tBool}
			}
			return sv{forall(vars, body.t), tBool}
		}
		return sv{exists(vars, body.t), tBool}
	case *ECall:
		return e.evalCall(n)
	}
	specFail("cannot evaluate %T", x)
	return sv{}
}

// unify boxes a concrete value when compared with an interface value, and types nil.
func (e *specEnv) unify(a, b sv) (sv, sv) {
	c := e.c
	an := a.ty == types.Typ[types.UntypedNil]
	bn := b.ty == types.Typ[types.UntypedNil]
	switch {
	case an && bn:
		return a, b
	case an:
		return sv{c.zero(b.ty), b.ty}, b
	case bn:
		return a, sv{c.zero(a.ty), a.ty}
	}
	if isInterface(a.ty) && !isInterface(b.ty) {
		return a, sv{c.box(b.ty, b.t), a.ty}
	}
	if !isInterface(a.ty) && isInterface(b.ty) {
		return sv{c.box(a.ty, a.t), b.ty}, b
	}
	return a, b
}

func (e *specEnv) evalBinary(n *EBinary) sv {
	switch n.Op {
	case "&&":
		a := e.eval(n.X)
		b := e.eval(n.Y)
		return sv{and(a.t, b.t), tBool}
	case "||":
		a := e.eval(n.X)
		b := e.eval(n.Y)
		return sv{or(a.t, b.t), tBool}
	case "==>":
		a := e.eval(n.X)
		b := e.eval(n.Y)
		return sv{implies(a.t, b.t), tBool}
	case "<==>":
		a := e.eval(n.X)
		b := e.eval(n.Y)
		return sv{eq(a.t, b.t), tBool}
	case "in":
		k := e.eval(n.X)
		m := e.eval(n.Y)
		mt, ok := types.Unalias(m.ty).Underlying().(*types.Map)
		if !ok {
			specFail("'in' needs a map")
		}
		dom, _, _ := e.c.mapHeaps(mt)
		d := e.c.heapGet(dom, e.c.heapSort[dom])
		if e.inPat {
			return sv{sel2(d, m.t, k.t), tBool} // as a trigger: the domain lookup itself
		}
		return sv{and(not(eq(m.t, "0")), sel2(d, m.t, k.t)), tBool}
	}
	a := e.eval(n.X)
	b := e.eval(n.Y)
	switch n.Op {
	case "==", "!=":
		// a slice compared with nil: the same test the translation of the code uses (no backing array)
		an, bn := a.ty == types.Typ[types.UntypedNil], b.ty == types.Typ[types.UntypedNil]
		if an != bn {
			x := a
			if an {
				x = b
			}
			if _, ok := types.Unalias(x.ty).Underlying().(*types.Slice); ok {
				r := eq(app("s-arr", x.t), "0")
				if n.Op == "!=" {
					r = not(r)
				}
				return sv{r, tBool}
			}
		}
		a, b = e.unify(a, b)
		// on float64, spec == is identity of the value (bit pattern); Go's == is feq(x, y)
		r := eq(a.t, b.t)
		if n.Op == "!=" {
			r = not(r)
		}
		return sv{r, tBool}
	case "<", "<=", ">", ">=":
		if isStrT(a.ty) {
			if !e.c.inAxiom {
				e.c.usesStrLt = true
			}
			switch n.Op {
			case "<":
				return sv{app("str_lt", a.t, b.t), tBool}
			case ">":
				return sv{app("str_lt", b.t, a.t), tBool}
			case "<=":
				return sv{not(app("str_lt", b.t, a.t)), tBool}
			default:
				return sv{not(app("str_lt", a.t, b.t)), tBool}
			}
		}
		if isF64T(a.ty) {
			switch n.Op {
			case "<":
				return sv{app("f64_lt", a.t, b.t), tBool}
			case ">":
				return sv{app("f64_lt", b.t, a.t), tBool}
			case "<=":
				return sv{app("f64_le", a.t, b.t), tBool}
			default:
				return sv{app("f64_le", b.t, a.t), tBool}
			}
		}
		return sv{app(n.Op, a.t, b.t), tBool}
	case "+":
		if isStrT(a.ty) {
			return sv{app("scat", a.t, b.t), a.ty}
		}
		return sv{add(a.t, b.t), tInt}
	case "-":
		return sv{sub(a.t, b.t), tInt}
	case "*":
		return sv{app("*", a.t, b.t), tInt}
	case "/":
		return sv{app("tdiv", a.t, b.t), tInt}
	case "%":
		return sv{app("tmod", a.t, b.t), tInt}
	case "mod":
		return sv{app("mod", a.t, b.t), tInt}
	case "<<":
		if k, ok := n.Y.(*EInt); ok {
			p := new(bigIntT).Lsh(bigOne, uint(k.Val.Int64()))
			return sv{app("*", a.t, p.String()), tInt}
		}
	}
	specFail("unsupported operator %q", n.Op)
	return sv{}
}

func (e *specEnv) index(b, i sv) sv {
	c := e.c
	switch tt := types.Unalias(b.ty).Underlying().(type) {
	case *types.Basic:
		if isStrT(b.ty) {
			return sv{app("sat", b.t, i.t), tInt}
		}
	case *types.Slice:
		hn, hs := c.elemHeap(tt.Elem())
		h := c.heapGet(hn, hs)
		return sv{sel2(h, app("s-arr", b.t), add(app("s-off", b.t), i.t)), tt.Elem()}
	case *types.Array:
		return sv{sel(b.t, i.t), tt.Elem()}
	case *types.Map:
		dom, val, _ := c.mapHeaps(tt)
		v := c.heapGet(val, c.heapSort[val])
		if e.inPat {
			return sv{sel2(v, b.t, i.t), tt.Elem()}
		}
		// Go's m[k]: the zero value when the key is absent (or the map is nil)
		d := c.heapGet(dom, c.heapSort[dom])
		present := and(not(eq(b.t, "0")), sel2(d, b.t, i.t))
		return sv{ite(present, sel2(v, b.t, i.t), c.zero(tt.Elem())), tt.Elem()}
	}
	specFail("cannot index %s", b.ty)
	return sv{}
}

func (e *specEnv) evalSel(n *ESel) sv {
	c := e.c
	b := e.eval(n.X)
	ty := types.Unalias(b.ty)
	if pt, ok := ty.Underlying().(*types.Pointer); ok {
		st, ok := types.Unalias(pt.Elem()).Underlying().(*types.Struct)
		if !ok {
			specFail("selector on pointer to non-struct %s", b.ty)
		}
		for i := 0; i < st.NumFields(); i++ {
			if st.Field(i).Name() == n.Name {
				a := c.fieldAddr(c.addrOfPtr(b.t, pt.Elem()), i)
				t := c.load(a)
				// state invariant: a stored string or slice is a valid value of its type
				if !strings.Contains(t, "!q") {
					switch types.Unalias(st.Field(i).Type()).Underlying().(type) {
					case *types.Basic:
						if isStrT(st.Field(i).Type()) {
							c.assume(lt(app("slen", t), maxLenS))
						}
					case *types.Slice:
						c.assume(app("validSlice", t))
					}
				}
				return sv{t, st.Field(i).Type()}
			}
		}
		specFail("no field %s in %s", n.Name, pt.Elem())
	}
	if st, ok := ty.Underlying().(*types.Struct); ok {
		si := c.sorts.structInfo(ty)
		for i := 0; i < st.NumFields(); i++ {
			if st.Field(i).Name() == n.Name {
				return sv{app(si.fields[i], b.t), st.Field(i).Type()}
			}
		}
		specFail("no field %s in %s", n.Name, ty)
	}
	specFail("selector .%s on %s", n.Name, b.ty)
	return sv{}
}

func (e *specEnv) evalCall(n *ECall) sv {
	c := e.c
	args := func() []sv {
		out := make([]sv, len(n.Args))
		for i, a := range n.Args {
			out[i] = e.eval(a)
		}
		return out
	}
	need := func(k int) {
		if len(n.Args) != k {
			specFail("%s expects %d arguments", n.Fun, k)
		}
	}
	switch n.Fun {
	case "len":
		need(1)
		a := args()[0]
		switch tt := types.Unalias(a.ty).Underlying().(type) {
		case *types.Basic:
			return sv{app("slen", a.t), tInt}
		case *types.Slice:
			return sv{app("s-len", a.t), tInt}
		case *types.Array:
			return sv{intLit(tt.Len()), tInt}
		case *types.Map:
			_, _, ln := c.mapHeaps(tt)
			return sv{ite(eq(a.t, "0"), "0", sel(c.heapGet(ln, c.heapSort[ln]), a.t)), tInt}
		}
		specFail("len of %s", a.ty)
	case "cap":
		need(1)
		a := args()[0]
		if _, ok := types.Unalias(a.ty).Underlying().(*types.Slice); !ok {
			specFail("cap of %s", a.ty)
		}
		return sv{app("s-cap", a.t), tInt}
	case "min", "max":
		as := args()
		if len(as) < 1 {
			specFail("min/max need arguments")
		}
		f := "imin"
		if n.Fun == "max" {
			f = "imax"
		}
		rt := types.Type(tInt)
		if basicInfo(as[0].ty)&types.IsFloat != 0 {
			// Go's builtin min/max on float64: the same uninterpreted symbols the translation of the code uses
			f = "f64_" + n.Fun
			c.declareFun(f, []string{"F64", "F64"}, "F64")
			rt = as[0].ty
		}
		r := as[0].t
		for _, a := range as[1:] {
			r = app(f, r, a.t)
		}
		return sv{r, rt}
	case "abs":
		need(1)
		return sv{app("iabs", args()[0].t), tInt}
	case "sign":
		need(1)
		return sv{app("isign", args()[0].t), tInt}
	case "bigval":
		need(1)
		return sv{sel(c.bigHeap(), args()[0].t), tInt}
	case "out":
		// ghost: everything written so far to a writer / buffer (by object identity)
		need(1)
		if id, ok := n.Args[0].(*EIdent); ok {
			// a local variable that is itself the buffer (var sb strings.Builder): its identity is the
			// address of its cell
			if _, bound := e.vars[id.Name]; !bound {
				if al := c.cellOf(id.Name); al != nil && c.vals[al] != "" {
					if _, isStruct := types.Unalias(al.Type().(*types.Pointer).Elem()).Underlying().(*types.Struct); isStruct {
						h := c.heapGet("GH_out", "(Array Int Str)")
						return sv{sel(h, c.vals[al]), tStr}
					}
				}
			}
		}
		a := args()[0]
		h := c.heapGet("GH_out", "(Array Int Str)")
		return sv{sel(h, c.writerKey(a)), tStr}
	case "str1":
		need(1)
		return sv{app("str1", args()[0].t), tStr}
	case "rep":
		need(2)
		as := args()
		return sv{app("srep", as[0].t, as[1].t), tStr}
	case "bytestr":
		need(1)
		a := args()[0]
		st, ok := types.Unalias(a.ty).Underlying().(*types.Slice)
		if !ok {
			specFail("bytestr of non-slice")
		}
		hn, hs := c.elemHeap(st.Elem())
		h := c.heapGet(hn, hs)
		return sv{c.strOfBytes(sel(h, app("s-arr", a.t)), app("s-off", a.t), app("s-len", a.t)), tStr}
	case "deref":
		need(1)
		a := args()[0]
		pt, ok := types.Unalias(a.ty).Underlying().(*types.Pointer)
		if !ok {
			specFail("deref of non-pointer")
		}
		return sv{c.load(c.addrOfPtr(a.t, pt.Elem())), pt.Elem()}
	case "global":
		// the current content of a package-level variable
		need(1)
		id, ok := n.Args[0].(*EIdent)
		if !ok || e.pkg == nil {
			specFail("global(name) needs a package-level variable name")
		}
		sp := c.eng.pkgs[e.pkg.Path()]
		if sp == nil {
			specFail("no package for global %s", id.Name)
		}
		g, ok := sp.Members[id.Name].(*ssa.Global)
		if !ok {
			specFail("no package-level variable %s", id.Name)
		}
		pt := g.Type().(*types.Pointer)
		a := c.addrOfPtr(c.term(g), pt.Elem())
		return sv{c.load(a), pt.Elem()}
	case "feq":
		need(2)
		as := args()
		return sv{app("f64_eq", as[0].t, as[1].t), tBool}
	case "fadd", "fdiv":
		need(2)
		as := args()
		return sv{app(map[string]string{"fadd": "f64_add", "fdiv": "f64_div"}[n.Fun], as[0].t, as[1].t), tF64}
	case "pubval":
		need(1)
		return sv{app("pubval", args()[0].t), tInt}
	case "float64":
		need(1)
		return sv{app("f64_of_int", args()[0].t), tF64}
	case "ediv":
		need(2)
		as := args()
		return sv{app("div", as[0].t, as[1].t), tInt}
	case "wrap64", "wrap32", "wrapu8", "tdiv", "tmod":
		as := args()
		ts := make([]string, len(as))
		for i := range as {
			ts[i] = as[i].t
		}
		return sv{app(n.Fun, ts...), tInt}
	case "rwidth", "rdecode", "ridx":
		need(2)
		as := args()
		return sv{app(n.Fun, as[0].t, as[1].t), tInt}
	case "ghost":
		// ghost(x, "name"): a named integer ghost field of the object x (heap GH_g_name), for state of
		// dependencies that the code cannot observe (e.g. how far a decoder has consumed its input)
		need(2)
		nm, ok := n.Args[1].(*EStr)
		if !ok || !identRe.MatchString(nm.Val) {
			specFail("ghost(x, \"name\") needs a literal identifier")
		}
		a := e.eval(n.Args[0])
		return sv{sel(c.heapGet("GH_g_"+nm.Val, "(Array Int Int)"), c.refOf(a)), tInt}
	case "sortedflag":
		// ghost: 2 = last sorted by a stable sort, 1 = by an unstable sort, 0 = unknown
		need(1)
		a := args()[0]
		return sv{sel(c.heapGet("GH_sorted", "(Array Int Int)"), c.refOf(a)), tInt}
	case "flit":
		// float64 constant given by its IEEE-754 bit pattern
		need(1)
		return sv{app("f64_lit", args()[0].t), tF64}
	case "ownedref":
		need(1)
		return sv{sel(c.heapGet("GH_owned", "(Array Int Bool)"), args()[0].t), tBool}
	case "owned":
		// ghost: the object (array of a slice, map) is recorded by the allocator
		need(1)
		a := args()[0]
		if isInterface(a.ty) {
			h := c.heapGet("GH_owned", "(Array Int Bool)")
			return sv{or(and(app("(_ is VSlice)", a.t), sel(h, app("s-arr", app("vslice", a.t)))), and(app("(_ is VMap)", a.t), sel(h, app("vmap", a.t)))), tBool}
		}
		return sv{sel(c.heapGet("GH_owned", "(Array Int Bool)"), c.refOf(a)), tBool}
	case "bitor_fact":
		// model axiom of | on non-negative integers, instantiated explicitly:
		// bit k of (a | b) is set iff it is set in a or in b
		need(3)
		as := args()
		a, b, k := as[0].t, as[1].t, as[2].t
		bit := func(x string) string { return eq(app("mod", app("div", x, app("pow2", k)), "2"), "1") }
		or1 := app("bits_or", a, b)
		return sv{implies(and(le("0", a), le("0", b), le("0", k), le(k, "62")), and(le("0", or1), eq(bit(or1), or(bit(a), bit(b))))), tBool}
	case "bitor":
		need(2)
		as := args()
		return sv{app("bits_or", as[0].t, as[1].t), tInt}
	case "pow2":
		need(1)
		return sv{app("pow2", args()[0].t), tInt}
	case "bit":
		// bit(x, k): bit k of the non-negative integer x
		need(2)
		as := args()
		return sv{eq(app("mod", app("div", as[0].t, app("pow2", as[1].t)), "2"), "1"), tBool}
	case "rcount":
		need(1)
		return sv{app("rcount", args()[0].t), tInt}
	case "arr", "off":
		need(1)
		a := args()[0]
		if _, ok := types.Unalias(a.ty).Underlying().(*types.Slice); !ok {
			specFail("%s of %s", n.Fun, a.ty)
		}
		return sv{app("s-"+n.Fun, a.t), tInt}
	case "alloc":
		return sv{c.alloc(), tInt}
	case "after":
		// after(K, E): E in the state right after the K-th call of the function (calls counted in source
		// order); available where that call has been executed on every path to the clause
		if len(n.Args) != 2 {
			specFail("after(K, E) takes two arguments")
		}
		ki, ok := n.Args[0].(*EInt)
		if !ok || !ki.Val.IsInt64() {
			specFail("after(K, E): K must be an integer literal")
		}
		snap, ok := c.callSnaps[int(ki.Val.Int64())]
		if !ok {
			specFail("after(%d, ...): no such call has been translated yet", ki.Val.Int64())
		}
		saved := c.cur
		c.cur = snap.clone()
		v := e.eval(n.Args[1])
		c.cur = saved
		return v
	case "unchanged":
		// unchanged(): no modelled heap differs from its state at entry (the call wrote nothing)
		if e.old == nil {
			specFail("unchanged() not available")
		}
		var parts []string
		for _, h := range c.heapOrder {
			if c.isLocalHeap(h) || h == "ALLOC" {
				continue
			}
			cur, ok := e.heap[h]
			if !ok {
				continue
			}
			o, ok := e.old[h]
			if !ok || o == cur {
				continue
			}
			parts = append(parts, eq(cur, o))
		}
		return sv{and(parts...), tBool}
	case "oldalloc":
		if e.old == nil {
			specFail("oldalloc() not available")
		}
		return sv{e.old["ALLOC"], tInt}
	case "inv":
		// the declared type invariants (invariant-of) of the object the argument points to, in the
		// heap of the enclosing expression
		need(1)
		a := args()[0]
		parts := []string{}
		for _, ti := range c.typeInvsFor(a.ty) {
			ne := &specEnv{c: c, vars: map[string]sv{ti.Var: {a.t, a.ty}}, heap: e.heap, old: e.old, pkg: e.pkg}
			if p := c.eng.pkgs[ti.Pkg]; p != nil {
				ne.pkg = p.Pkg
			}
			parts = append(parts, ne.eval(ti.Clause.E).t)
		}
		if len(parts) == 0 {
			specFail("inv: no invariant-of is declared for %s", a.ty)
		}
		return sv{implies(not(eq(a.t, "0")), and(parts...)), tBool}
	case "fresh":
		// the reference held by the argument was allocated during this call
		need(1)
		a := args()[0]
		if e.old == nil {
			specFail("fresh() not available")
		}
		return sv{lt(e.old["ALLOC"], c.refOf(a)), tBool}
	case "ref":
		need(1)
		return sv{c.refOf(args()[0]), tInt}
	case "valid":
		need(1)
		a := args()[0]
		return sv{c.validity(a.t, a.ty, 0), tBool}
	case "isJSON":
		need(1)
		a := args()[0]
		return sv{app("jsonVal", a.t), tBool}
	case "typeid":
		need(1)
		return sv{app("vtype", args()[0].t), tInt}
	case "int":
		need(1)
		return sv{args()[0].t, tInt}
	case "string":
		need(1)
		return sv{args()[0].t, tStr}
	}
	// a lemma applied to arguments denotes its (proved) statement for those arguments; used as a
	// hypothesis it hands the solver the instance it needs
	for _, lem := range c.eng.specs.Lemmas {
		if lem.Name == n.Fun {
			as := args()
			if len(as) != len(lem.Params) {
				specFail("lemma %s expects %d arguments", lem.Name, len(lem.Params))
			}
			bind := map[string]sv{}
			// a lemma is proved for type-valid arguments only: its instance is guarded accordingly
			// (an argument such as v.([]any) of a value that is not an array is an arbitrary term)
			var vg []string
			for i, p := range lem.Params {
				bind[p.Name] = as[i]
				switch types.Unalias(as[i].ty).Underlying().(type) {
				case *types.Slice:
					vg = append(vg, app("validSlice", as[i].t))
				case *types.Interface:
					vg = append(vg, app("validVal", as[i].t))
				case *types.Pointer, *types.Map:
					vg = append(vg, le("0", as[i].t))
				}
			}
			req, ens, _, _, err := c.lemmaParts(lem, bind)
			if err != nil {
				specFail("lemma %s: %v", lem.Name, err)
			}
			c.usedLemmaCalls[lem.Name] = true
			return sv{implies(and(append(vg, req...)...), and(ens...)), tBool}
		}
	}
	// an axiom applied to arguments denotes its instance for those arguments (explicit
	// instantiation of the leading quantifier)
	for _, ax := range c.eng.specs.Axioms {
		if ax.Name == n.Fun {
			q, ok := ax.E.(*EQuant)
			if !ok || !q.Forall {
				specFail("axiom %s is not universally quantified", ax.Name)
			}
			as := args()
			if len(as) != len(q.Vars) {
				specFail("axiom %s has %d quantified variables", ax.Name, len(q.Vars))
			}
			ne := e.child()
			for i, qv := range q.Vars {
				ty := c.eng.resolveType(e.pkg, qv.Type)
				a := as[i]
				if isInterface(ty) && !isInterface(a.ty) && a.ty != types.Typ[types.UntypedNil] {
					a = sv{c.box(a.ty, a.t), ty}
				}
				ne.vars[qv.Name] = sv{a.t, ty}
			}
			return ne.eval(q.Body)
		}
	}
	sf := c.eng.specs.Funcs[n.Fun]
	if sf == nil {
		specFail("unknown spec function %q", n.Fun)
	}
	as := args()
	if len(as) != len(sf.Params) {
		specFail("%s expects %d arguments", n.Fun, len(sf.Params))
	}
	if sf.Body != nil {
		// macro expansion in the current heap
		if e.depth > 8 {
			specFail("spec function %s: expansion too deep (recursive definitions must be axiomatised)", n.Fun)
		}
		ne := &specEnv{c: c, vars: map[string]sv{}, heap: e.heap, old: e.old, pkg: e.pkg, depth: e.depth + 1}
		for i, p := range sf.Params {
			pty := c.eng.resolveType(e.pkg, p.Type)
			a := as[i]
			if isInterface(pty) && !isInterface(a.ty) && a.ty != types.Typ[types.UntypedNil] {
				a = sv{c.box(a.ty, a.t), pty}
			}
			if a.ty == types.Typ[types.UntypedNil] {
				a = sv{c.zero(pty), pty}
			}
			ne.vars[p.Name] = sv{a.t, pty}
		}
		r := ne.eval(sf.Body)
		rty := c.eng.resolveType(e.pkg, sf.Result)
		return sv{r.t, rty}
	}
	// uninterpreted
	var psorts, ts []string
	for i, p := range sf.Params {
		pty := c.eng.resolveType(e.pkg, p.Type)
		a := as[i]
		if isInterface(pty) && !isInterface(a.ty) && a.ty != types.Typ[types.UntypedNil] {
			a = sv{c.box(a.ty, a.t), pty}
		}
		if a.ty == types.Typ[types.UntypedNil] {
			a = sv{c.zero(pty), pty}
		}
		psorts = append(psorts, c.sorts.sortOf(pty))
		ts = append(ts, a.t)
	}
	if len(sf.Reads) > 0 {
		snap := heapState{}
		key := ""
		for _, h := range sf.Reads {
			srt, ok := c.eng.heapSortByName(c, h)
			if !ok {
				specFail("spec function %s reads unknown heap %s", sf.Name, h)
			}
			psorts = append(psorts, srt)
			t := c.heapGet(h, srt)
			ts = append(ts, t)
			snap[h] = t
			key += h + "=" + t + ";"
		}
		if _, ok := c.readSnaps[key]; !ok && !c.inAxiom {
			snap["ALLOC"] = c.alloc()
			c.readSnaps[key] = snap
			c.readSnapOrder = append(c.readSnapOrder, key)
		}
	}
	rty := c.eng.resolveType(e.pkg, sf.Result)
	c.declareFun("sf_"+sf.Name, psorts, c.sorts.sortOf(rty))
	c.usedSpecFuncs[sf.Name] = true
	if len(ts) == 0 {
		return sv{"sf_" + sf.Name, rty}
	}
	return sv{app("sf_"+sf.Name, ts...), rty}
}

// refOf returns the reference (object/array/map id) held by a value.
func (c *FnCtx) refOf(a sv) string {
	if isInterface(a.ty) {
		// a container carried by an interface value
		return ite(app("(_ is VSlice)", a.t), app("s-arr", app("vslice", a.t)), ite(app("(_ is VMap)", a.t), app("vmap", a.t), app("s-arr", app("dec_slice", app("vpay", a.t)))))
	}
	switch types.Unalias(a.ty).Underlying().(type) {
	case *types.Slice:
		return app("s-arr", a.t)
	case *types.Pointer, *types.Map:
		return a.t
	}
	specFail("ref of %s", a.ty)
	return ""
}

// writerKey: the identity under which the ghost output of a writer is kept.
func (c *FnCtx) writerKey(a sv) string {
	if isInterface(a.ty) {
		return app("vpay", a.t)
	}
	if _, ok := types.Unalias(a.ty).Underlying().(*types.Pointer); ok {
		return a.t
	}
	specFail("out() of %s", a.ty)
	return ""
}
