package main

import (
	"fmt"
	"go/token"
	"go/types"
	"os"
	"path/filepath"
	"sort"
	"strings"

	"golang.org/x/tools/go/ssa"
)

// globalsWrite: structural obligation for C06 - outside init, no function of the library package
// stores to a package-level variable (or to a map/slice loaded directly from one). Shared state
// between runs is then never written.
func (r *report) globalsWrite() {
	var keys []string
	for k := range r.eng.funcs {
		keys = append(keys, k)
	}
	sort.Strings(keys)
	var bad []string
	nfn := 0
	for _, k := range keys {
		fn := r.eng.funcs[k]
		pk := r.eng.fnPkg(fn)
		if pk == nil || pk.Pkg.Path() != gojqPath || len(fn.Blocks) == 0 || r.eng.special[k] != nil {
			continue
		}
		root := fn
		for root.Parent() != nil {
			root = root.Parent()
		}
		if root.Name() == "init" || strings.HasPrefix(root.Name(), "init#") || root.Synthetic != "" {
			continue
		}
		if f := r.eng.relFile(fn); f == "debug.go" || f == "parser.go" {
			continue // debug hooks (build tag) and the generated parser's debug level variables
		}
		nfn++
		for _, b := range fn.Blocks {
			for _, in := range b.Instrs {
				switch x := in.(type) {
				case *ssa.Store:
					if g := rootGlobal(x.Addr); g != nil {
						bad = append(bad, fmt.Sprintf("%s stores to package variable %s at %s", k, g.Name(), r.eng.fset.Position(x.Pos())))
					}
				case *ssa.MapUpdate:
					if g := loadedGlobal(x.Map); g != nil {
						bad = append(bad, fmt.Sprintf("%s writes the map in package variable %s at %s", k, g.Name(), r.eng.fset.Position(x.Pos())))
					}
				}
			}
		}
	}
	r.extraObl++
	name := "gojq/structural/no-package-variable-writes"
	detail := fmt.Sprintf("no function of package gojq other than init stores to a package-level variable (%d functions scanned)", nfn)
	if len(bad) == 0 {
		r.extraOK++
		r.extraSamples = append(r.extraSamples, map[string]any{"obligation": name, "kind": "structural (all functions, no solver)", "clause": detail, "status": "discharged"})
		return
	}
	dir := filepath.Join(r.verif, "replays", r.id)
	os.MkdirAll(dir, 0o755)
	path := filepath.Join(dir, "no-package-variable-writes.txt")
	txt := fmt.Sprintf("property: %s\nobligation: %s\n%s\nfailed:\n", r.id, name, detail)
	for _, b := range bad {
		txt += "  " + b + "\n"
	}
	os.WriteFile(path, []byte(txt+"no counterexample: structural obligation\n"), 0o644)
	fmt.Printf("VIOLATION property=%s replay=%s obligation=%s status=structural no-failing-input-found\n", r.id, path, name)
	r.violations = append(r.violations, name)
	r.structFail = true
}

func rootGlobal(v ssa.Value) *ssa.Global {
	switch x := v.(type) {
	case *ssa.Global:
		return x
	case *ssa.FieldAddr:
		return rootGlobal(x.X)
	case *ssa.IndexAddr:
		if g := rootGlobal(x.X); g != nil {
			return g
		}
		return loadedGlobal(x.X)
	}
	return nil
}

func loadedGlobal(v ssa.Value) *ssa.Global {
	if u, ok := v.(*ssa.UnOp); ok {
		if g, ok := u.X.(*ssa.Global); ok {
			return g
		}
	}
	return nil
}

// compiledStateWrites: structural obligation for C06 - the compiled program is immutable at run time.
// Run-time entry points are the functions of execute.go and env.go and every function with the callback
// signature func(any, []any) any (native builtins, including method values of *compiler such as
// c.funcInput that are embedded in the code). Neither they nor any function they call statically
// (transitively, inside the package) store into a compiler, Code, code, codeinfo or scopeinfo object or
// into a map or slice loaded from a field of one. Calls through function values are not followed.
func (r *report) compiledStateWrites() {
	shared := map[string]bool{"compiler": true, "Code": true, "code": true, "codeinfo": true, "scopeinfo": true, "funcinfo": true, "varinfo": true, "Query": true}
	isShared := func(t types.Type) bool {
		if pt, ok := types.Unalias(t).Underlying().(*types.Pointer); ok {
			t = pt.Elem()
		}
		n, ok := types.Unalias(t).(*types.Named)
		return ok && n.Obj().Pkg() != nil && n.Obj().Pkg().Path() == gojqPath && shared[n.Obj().Name()]
	}
	// the object an address is rooted at: x.f, x.f[i], (*x.f)[i] ...
	var rootedAtShared func(v ssa.Value, depth int) string
	rootedAtShared = func(v ssa.Value, depth int) string {
		if depth > 8 {
			return ""
		}
		switch x := v.(type) {
		case *ssa.FieldAddr:
			if isShared(x.X.Type()) {
				pt := types.Unalias(x.X.Type()).Underlying().(*types.Pointer)
				st := types.Unalias(pt.Elem()).Underlying().(*types.Struct)
				return types.TypeString(pt.Elem(), func(*types.Package) string { return "" }) + "." + st.Field(x.Field).Name()
			}
			return rootedAtShared(x.X, depth+1)
		case *ssa.IndexAddr:
			return rootedAtShared(x.X, depth+1)
		case *ssa.UnOp:
			if x.Op == token.MUL {
				// a slice, map or pointer loaded from a field of a shared object
				return rootedAtShared(x.X, depth+1)
			}
		}
		return ""
	}
	var keys []string
	for k := range r.eng.funcs {
		keys = append(keys, k)
	}
	sort.Strings(keys)
	isCallbackSig := func(sig *types.Signature) bool {
		if sig.Params().Len() != 2 || sig.Results().Len() != 1 || sig.Variadic() {
			return false
		}
		if !isEmptyInterface(sig.Params().At(0).Type()) || !isEmptyInterface(sig.Results().At(0).Type()) {
			return false
		}
		sl, ok := types.Unalias(sig.Params().At(1).Type()).Underlying().(*types.Slice)
		return ok && isEmptyInterface(sl.Elem())
	}
	work := []*ssa.Function{}
	seen := map[*ssa.Function]bool{}
	add := func(fn *ssa.Function) {
		if fn == nil || seen[fn] || len(fn.Blocks) == 0 {
			return
		}
		pk := r.eng.fnPkg(fn)
		if pk == nil || pk.Pkg.Path() != gojqPath {
			return
		}
		seen[fn] = true
		work = append(work, fn)
	}
	nentry := 0
	for _, k := range keys {
		fn := r.eng.funcs[k]
		pk := r.eng.fnPkg(fn)
		if pk == nil || pk.Pkg.Path() != gojqPath || len(fn.Blocks) == 0 {
			continue
		}
		f := r.eng.relFile(fn)
		if f == "execute.go" || f == "env.go" || isCallbackSig(fn.Signature) {
			if !seen[fn] {
				nentry++
			}
			add(fn)
		}
	}
	var bad []string
	for len(work) > 0 {
		fn := work[len(work)-1]
		work = work[:len(work)-1]
		k := r.eng.funcKey(fn)
		for _, b := range fn.Blocks {
			for _, in := range b.Instrs {
				switch x := in.(type) {
				case *ssa.Store:
					if w := rootedAtShared(x.Addr, 0); w != "" {
						bad = append(bad, fmt.Sprintf("%s stores into %s at %s", k, w, r.eng.fset.Position(x.Pos())))
					}
				case *ssa.MapUpdate:
					if w := rootedAtShared(x.Map, 0); w != "" {
						bad = append(bad, fmt.Sprintf("%s writes the map %s at %s", k, w, r.eng.fset.Position(x.Pos())))
					}
				case ssa.CallInstruction:
					cc := x.Common()
					if cc.IsInvoke() {
						continue
					}
					switch f := cc.Value.(type) {
					case *ssa.Function:
						add(f)
					case *ssa.MakeClosure:
						add(f.Fn.(*ssa.Function))
					}
				}
				if mc, ok := in.(*ssa.MakeClosure); ok {
					add(mc.Fn.(*ssa.Function)) // a closure created at run time runs at run time
				}
			}
		}
	}
	r.extraObl++
	name := "gojq/structural/compiled-program-immutable-at-run-time"
	detail := fmt.Sprintf("no run-time function (functions of execute.go and env.go, native callbacks func(any, []any) any including compiler method values, and their static callees: %d entry points, %d functions scanned) stores into a compiler, Code, code, codeinfo, scopeinfo or Query object; calls through function values are not followed", nentry, len(seen))
	if len(bad) == 0 {
		r.extraOK++
		r.extraSamples = append(r.extraSamples, map[string]any{"obligation": name, "kind": "structural (call-graph closure, no solver)", "clause": detail, "status": "discharged"})
		return
	}
	dir := filepath.Join(r.verif, "replays", r.id)
	os.MkdirAll(dir, 0o755)
	path := filepath.Join(dir, "compiled-program-immutable.txt")
	txt := fmt.Sprintf("property: %s\nobligation: %s\n%s\nfailed:\n", r.id, name, detail)
	sort.Strings(bad)
	for _, b := range bad {
		txt += "  " + b + "\n"
	}
	os.WriteFile(path, []byte(txt+"no counterexample: structural obligation\n"), 0o644)
	fmt.Printf("VIOLATION property=%s replay=%s obligation=%s status=structural no-failing-input-found\n", r.id, path, name)
	r.violations = append(r.violations, name)
	r.structFail = true
}

// ambientAuthority: structural obligation for C19 - the library reaches the operating system only
// through capabilities the caller hands over. No function of package gojq outside module_loader.go (the
// implementation behind WithModuleLoader, which exists only when the caller constructs it) calls into
// os, os/exec, os/user, io/ioutil, net, net/http, syscall or plugin, reads time.Local implicitly aside,
// and none mentions os.Args / os.Stdin / os.Stdout / os.Stderr. (time.Now and time zone lookups are the
// documented exceptions of the property and are not flagged; debug.go is behind a build tag.)
func (r *report) ambientAuthority() {
	forbidden := map[string]bool{"os": true, "os/exec": true, "os/user": true, "os/signal": true, "io/ioutil": true, "net": true, "net/http": true, "syscall": true, "plugin": true, "io/fs": true}
	var keys []string
	for k := range r.eng.funcs {
		keys = append(keys, k)
	}
	sort.Strings(keys)
	var bad []string
	nfn := 0
	for _, k := range keys {
		fn := r.eng.funcs[k]
		pk := r.eng.fnPkg(fn)
		if pk == nil || pk.Pkg.Path() != gojqPath || len(fn.Blocks) == 0 {
			continue
		}
		if f := r.eng.relFile(fn); f == "module_loader.go" || f == "debug.go" {
			continue
		}
		if fn.Synthetic != "" && fn.Name() == "init" {
			continue // the package initialiser only runs the initialisers of the imported packages
		}
		nfn++
		for _, b := range fn.Blocks {
			for _, in := range b.Instrs {
				var ops [16]*ssa.Value
				for _, op := range in.Operands(ops[:0]) {
					if op == nil || *op == nil {
						continue
					}
					switch v := (*op).(type) {
					case *ssa.Function:
						if v.Pkg != nil && forbidden[v.Pkg.Pkg.Path()] {
							bad = append(bad, fmt.Sprintf("%s uses %s.%s at %s", k, v.Pkg.Pkg.Path(), v.Name(), r.eng.fset.Position(in.Pos())))
						}
					case *ssa.Global:
						if v.Pkg != nil && forbidden[v.Pkg.Pkg.Path()] {
							bad = append(bad, fmt.Sprintf("%s uses the variable %s.%s at %s", k, v.Pkg.Pkg.Path(), v.Name(), r.eng.fset.Position(in.Pos())))
						}
					}
				}
			}
		}
	}
	r.extraObl++
	name := "gojq/structural/no-ambient-authority"
	detail := fmt.Sprintf("no function of package gojq outside module_loader.go (the loader the caller must construct and pass with WithModuleLoader) refers to a function or variable of os, os/exec, os/user, os/signal, io/ioutil, io/fs, net, net/http, syscall or plugin (%d functions scanned; time.Now and time zones are the property's documented exceptions)", nfn)
	if len(bad) == 0 {
		r.extraOK++
		r.extraSamples = append(r.extraSamples, map[string]any{"obligation": name, "kind": "structural (all functions, no solver)", "clause": detail, "status": "discharged"})
		return
	}
	dir := filepath.Join(r.verif, "replays", r.id)
	os.MkdirAll(dir, 0o755)
	path := filepath.Join(dir, "no-ambient-authority.txt")
	txt := fmt.Sprintf("property: %s\nobligation: %s\n%s\nfailed:\n", r.id, name, detail)
	for _, b := range bad {
		txt += "  " + b + "\n"
	}
	os.WriteFile(path, []byte(txt+"no counterexample: structural obligation\n"), 0o644)
	fmt.Printf("VIOLATION property=%s replay=%s obligation=%s status=structural no-failing-input-found\n", r.id, path, name)
	r.violations = append(r.violations, name)
	r.structFail = true
}

// sharedConstantCapacity: structural obligation for C05/C06 - a slice the compiler embeds in the compiled
// program (stored into code.v) is shared by every run and every input, and the interpreter appends to
// values it loads from there (opappend, funcOpAdd ...). append writes into spare capacity in place, so
// such a slice must have none: cap == len by construction. Decided syntactically for the slices whose
// construction is visible at the store (composite literal, make with equal length and capacity, nil);
// a slice that reaches code.v as an `any` (constants built by ConstTerm.toValue etc.) is not seen here.
func (r *report) sharedConstantCapacity() {
	var keys []string
	for k := range r.eng.funcs {
		keys = append(keys, k)
	}
	sort.Strings(keys)
	isCodeV := func(a ssa.Value) bool {
		fa, ok := a.(*ssa.FieldAddr)
		if !ok {
			return false
		}
		pt, ok := types.Unalias(fa.X.Type()).Underlying().(*types.Pointer)
		if !ok {
			return false
		}
		n, ok := types.Unalias(pt.Elem()).(*types.Named)
		if !ok || n.Obj().Pkg() == nil || n.Obj().Pkg().Path() != gojqPath || n.Obj().Name() != "code" {
			return false
		}
		return n.Underlying().(*types.Struct).Field(fa.Field).Name() == "v"
	}
	constInt := func(v ssa.Value) (int64, bool) {
		if c, ok := v.(*ssa.Const); ok && c.Value != nil {
			return c.Int64(), true
		}
		return 0, false
	}
	// "" when cap == len by construction, otherwise the reason it is not (or cannot be seen to be)
	var tight func(v ssa.Value, depth int) string
	tight = func(v ssa.Value, depth int) string {
		if depth > 6 {
			return "construction not visible"
		}
		switch x := v.(type) {
		case *ssa.Const:
			if x.Value == nil {
				return ""
			}
		case *ssa.ChangeType:
			return tight(x.X, depth+1)
		case *ssa.MakeSlice:
			if x.Len == x.Cap {
				return ""
			}
			l, ok1 := constInt(x.Len)
			c, ok2 := constInt(x.Cap)
			if ok1 && ok2 && l == c {
				return ""
			}
			return "make with a capacity that is not its length"
		case *ssa.Slice:
			if al, ok := x.X.(*ssa.Alloc); ok {
				if at, ok := types.Unalias(al.Type().(*types.Pointer).Elem()).Underlying().(*types.Array); ok {
					if x.Max == nil {
						if x.High == nil {
							return ""
						}
						if h, ok := constInt(x.High); ok && h == at.Len() {
							return ""
						}
					} else if x.High != nil {
						h, ok1 := constInt(x.High)
						m, ok2 := constInt(x.Max)
						if x.High == x.Max || (ok1 && ok2 && h == m) {
							return ""
						}
					}
					return "a slice of an array that leaves spare capacity"
				}
			}
			if x.Max != nil && x.High != nil {
				h, ok1 := constInt(x.High)
				m, ok2 := constInt(x.Max)
				if x.High == x.Max || (ok1 && ok2 && h == m) {
					return ""
				}
			}
			return "a re-slice whose capacity is not limited to its length"
		case *ssa.Phi:
			for _, e := range x.Edges {
				if w := tight(e, depth+1); w != "" {
					return w
				}
			}
			return ""
		}
		return "construction not visible at the store"
	}
	var bad, unseen []string
	nsites := 0
	for _, k := range keys {
		fn := r.eng.funcs[k]
		pk := r.eng.fnPkg(fn)
		if pk == nil || pk.Pkg.Path() != gojqPath || len(fn.Blocks) == 0 {
			continue
		}
		for _, b := range fn.Blocks {
			for _, in := range b.Instrs {
				st, ok := in.(*ssa.Store)
				if !ok || !isCodeV(st.Addr) {
					continue
				}
				mi, ok := st.Val.(*ssa.MakeInterface)
				if !ok {
					continue
				}
				if _, ok := types.Unalias(mi.X.Type()).Underlying().(*types.Slice); !ok {
					continue
				}
				nsites++
				if w := tight(mi.X, 0); w != "" {
					msg := fmt.Sprintf("%s embeds %s in the compiled program at %s", k, w, r.eng.fset.Position(st.Pos()))
					if strings.HasPrefix(w, "construction not visible") {
						unseen = append(unseen, msg)
					} else {
						bad = append(bad, msg)
					}
				}
			}
		}
	}
	r.extraObl++
	name := "gojq/structural/shared-constants-have-no-spare-capacity"
	detail := fmt.Sprintf("every slice stored into code.v with a visible construction (%d stores of slice-typed values in package gojq) has cap == len: a composite literal, make with equal length and capacity, a full slice expression limited to its length, or nil", nsites)
	for _, u := range unseen {
		r.extraNotes = append(r.extraNotes, "NOTE (not decided, not counted): "+u)
	}
	if len(bad) == 0 {
		r.extraOK++
		r.extraSamples = append(r.extraSamples, map[string]any{"obligation": name, "kind": "structural (syntactic, no solver)", "clause": detail, "status": "discharged"})
		return
	}
	dir := filepath.Join(r.verif, "replays", r.id)
	os.MkdirAll(dir, 0o755)
	path := filepath.Join(dir, "shared-constant-capacity.txt")
	txt := fmt.Sprintf("property: %s\nobligation: %s\n%s\nfailed:\n", r.id, name, detail)
	sort.Strings(bad)
	for _, b := range bad {
		txt += "  " + b + "\n"
	}
	os.WriteFile(path, []byte(txt+"no counterexample: structural obligation\n"), 0o644)
	fmt.Printf("VIOLATION property=%s replay=%s obligation=%s status=structural no-failing-input-found\n", r.id, path, name)
	r.violations = append(r.violations, name)
	r.structFail = true
}
