package main

import (
	"fmt"
	"os"
	"path/filepath"
	"sort"
	"strings"

	"golang.org/x/tools/go/ssa"
)

// globalsWrite: structural obligation for C06 - outside init, no function of the library package
// stores to a package-level variable (or to a map/slice loaded directly from one). Shared state
// between runs is then never written.
func (r *report) globalsWrite() {
	var keys []string
	for k := range r.eng.funcs {
		keys = append(keys, k)
	}
	sort.Strings(keys)
	var bad []string
	nfn := 0
	for _, k := range keys {
		fn := r.eng.funcs[k]
		pk := r.eng.fnPkg(fn)
		if pk == nil || pk.Pkg.Path() != gojqPath || len(fn.Blocks) == 0 || r.eng.special[k] != nil {
			continue
		}
		root := fn
		for root.Parent() != nil {
			root = root.Parent()
		}
		if root.Name() == "init" || strings.HasPrefix(root.Name(), "init#") || root.Synthetic != "" {
			continue
		}
		if f := r.eng.relFile(fn); f == "debug.go" || f == "parser.go" {
			continue // debug hooks (build tag) and the generated parser's debug level variables
		}
		nfn++
		for _, b := range fn.Blocks {
			for _, in := range b.Instrs {
				switch x := in.(type) {
				case *ssa.Store:
					if g := rootGlobal(x.Addr); g != nil {
						bad = append(bad, fmt.Sprintf("%s stores to package variable %s at %s", k, g.Name(), r.eng.fset.Position(x.Pos())))
					}
				case *ssa.MapUpdate:
					if g := loadedGlobal(x.Map); g != nil {
						bad = append(bad, fmt.Sprintf("%s writes the map in package variable %s at %s", k, g.Name(), r.eng.fset.Position(x.Pos())))
					}
				}
			}
		}
	}
	r.extraObl++
	name := "gojq/structural/no-package-variable-writes"
	detail := fmt.Sprintf("no function of package gojq other than init stores to a package-level variable (%d functions scanned)", nfn)
	if len(bad) == 0 {
		r.extraOK++
		r.extraSamples = append(r.extraSamples, map[string]any{"obligation": name, "kind": "structural (all functions, no solver)", "clause": detail, "status": "discharged"})
		return
	}
	dir := filepath.Join(r.verif, "replays", r.id)
	os.MkdirAll(dir, 0o755)
	path := filepath.Join(dir, "no-package-variable-writes.txt")
	txt := fmt.Sprintf("property: %s\nobligation: %s\n%s\nfailed:\n", r.id, name, detail)
	for _, b := range bad {
		txt += "  " + b + "\n"
	}
	os.WriteFile(path, []byte(txt+"no counterexample: structural obligation\n"), 0o644)
	fmt.Printf("VIOLATION property=%s replay=%s obligation=%s status=structural no-failing-input-found\n", r.id, path, name)
	r.violations = append(r.violations, name)
	r.structFail = true
}

func rootGlobal(v ssa.Value) *ssa.Global {
	switch x := v.(type) {
	case *ssa.Global:
		return x
	case *ssa.FieldAddr:
		return rootGlobal(x.X)
	case *ssa.IndexAddr:
		if g := rootGlobal(x.X); g != nil {
			return g
		}
		return loadedGlobal(x.X)
	}
	return nil
}

func loadedGlobal(v ssa.Value) *ssa.Global {
	if u, ok := v.(*ssa.UnOp); ok {
		if g, ok := u.X.(*ssa.Global); ok {
			return g
		}
	}
	return nil
}
