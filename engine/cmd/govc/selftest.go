package main

import (
	"encoding/json"
	"fmt"
	"os"
	"os/exec"
	"path/filepath"
	"strings"
	"sync"
)

// Must-fail / must-pass corpus (DESIGN §2.8): deliberate edits applied in memory (overlay) to
// the real sources; a property-breaking edit must fail a named obligation, a behaviour-preserving
// edit must still verify.
type mutant struct {
	ID       string `json:"id"`
	Property string `json:"property"`
	File     string `json:"file"`
	Old      string `json:"old"`
	New      string `json:"new"`
	Expect   string `json:"expect"` // "fail" or "pass"
	Only     string `json:"only"`   // regexp of the functions to re-verify
	Oblig    string `json:"obligation"`
	Why      string `json:"why"`
}

type mutantResult struct {
	ID      string   `json:"id"`
	Expect  string   `json:"expect"`
	Outcome string   `json:"outcome"` // caught, verified, HOLE, OVER-SPECIFIED, error
	Failing []string `json:"failing_obligations,omitempty"`
	Detail  string   `json:"detail,omitempty"`
}

func loadMutants(verif string) ([]mutant, error) {
	data, err := os.ReadFile(filepath.Join(verif, "selftest", "mutants.json"))
	if err != nil {
		return nil, err
	}
	var ms []mutant
	if err := json.Unmarshal(data, &ms); err != nil {
		return nil, err
	}
	return ms, nil
}

func runMutant(m mutant, repo, verif string) mutantResult {
	res := mutantResult{ID: m.ID, Expect: m.Expect}
	path := filepath.Join(repo, m.File)
	src, err := os.ReadFile(path)
	if err != nil {
		res.Outcome, res.Detail = "error", err.Error()
		return res
	}
	if strings.Count(string(src), m.Old) != 1 {
		res.Outcome, res.Detail = "error", fmt.Sprintf("pattern occurs %d times in %s (the corpus entry no longer matches the source)", strings.Count(string(src), m.Old), m.File)
		return res
	}
	tmp, err := os.MkdirTemp("", "govc-mut-")
	if err != nil {
		res.Outcome, res.Detail = "error", err.Error()
		return res
	}
	defer os.RemoveAll(tmp)
	ov, _ := json.Marshal(map[string]string{path: strings.Replace(string(src), m.Old, m.New, 1)})
	ovFile := filepath.Join(tmp, "overlay.json")
	os.WriteFile(ovFile, ov, 0o644)
	// a private copy of the check inputs so that evidence and replays of the real run are untouched
	os.MkdirAll(filepath.Join(tmp, "v", "contracts"), 0o755)
	for _, f := range []string{"props.json", "known_findings.json"} {
		if d, err := os.ReadFile(filepath.Join(verif, f)); err == nil {
			os.WriteFile(filepath.Join(tmp, "v", f), d, 0o644)
		}
	}
	if d, err := os.ReadFile(filepath.Join(verif, "contracts", "stdlib.vc")); err == nil {
		os.WriteFile(filepath.Join(tmp, "v", "contracts", "stdlib.vc"), d, 0o644)
	}
	exec.Command("cp", "-r", filepath.Join(verif, "baseline"), filepath.Join(tmp, "v", "baseline")).Run()
	self, _ := os.Executable()
	args := []string{"check", m.Property, "--noselftest"}
	if m.Only != "" {
		args = append(args, "--only", m.Only)
	}
	cmd := exec.Command(self, args...)
	cmd.Env = append(os.Environ(), "GOVC_OVERLAY="+ovFile, "GOVC_VERIF="+filepath.Join(tmp, "v"), "GOVC_REPO="+repo, "GOVC_NOREPLAY=1")
	out, _ := cmd.CombinedOutput()
	for _, l := range strings.Split(string(out), "\n") {
		if strings.HasPrefix(l, "VIOLATION") {
			if i := strings.Index(l, "obligation="); i >= 0 {
				res.Failing = append(res.Failing, strings.Fields(l[i+11:])[0])
			} else {
				res.Failing = append(res.Failing, l)
			}
		}
		if strings.HasPrefix(l, "load:") || strings.Contains(l, "contract syntax") {
			res.Outcome, res.Detail = "error", l
			return res
		}
	}
	matched := len(res.Failing) > 0
	if m.Oblig != "" && matched {
		matched = false
		for _, f := range res.Failing {
			if strings.HasPrefix(f, m.Oblig) {
				matched = true
			}
		}
	}
	switch m.Expect {
	case "fail":
		if matched {
			res.Outcome = "caught"
		} else if len(res.Failing) > 0 {
			res.Outcome, res.Detail = "caught", "by another obligation than the one named in the corpus"
		} else {
			res.Outcome, res.Detail = "HOLE", "the property-breaking edit verifies: engine or contract defect"
		}
	default:
		if len(res.Failing) == 0 {
			res.Outcome = "verified"
		} else {
			res.Outcome, res.Detail = "OVER-SPECIFIED", "a behaviour-preserving edit raises an alarm: the contract demands more than the property"
		}
	}
	if len(res.Failing) > 6 {
		res.Failing = res.Failing[:6]
	}
	return res
}

// selftestFor runs the corpus entries of one property (n <= 0: all).
func selftestFor(prop string, n int, repo, verif string) map[string]any {
	ms, err := loadMutants(verif)
	if err != nil {
		return map[string]any{"error": err.Error()}
	}
	var sel []mutant
	for _, m := range ms {
		if m.Property == prop {
			sel = append(sel, m)
		}
	}
	total := len(sel)
	if n > 0 && len(sel) > n {
		sel = sel[:n]
	}
	results := make([]mutantResult, len(sel))
	var wg sync.WaitGroup
	sem := make(chan struct{}, 4)
	for i, m := range sel {
		wg.Add(1)
		go func(i int, m mutant) {
			defer wg.Done()
			sem <- struct{}{}
			defer func() { <-sem }()
			results[i] = runMutant(m, repo, verif)
		}(i, m)
	}
	wg.Wait()
	caught, verified, holes, over, errs := 0, 0, 0, 0, 0
	for _, r := range results {
		switch r.Outcome {
		case "caught":
			caught++
		case "verified":
			verified++
		case "HOLE":
			holes++
			fmt.Printf("SELFTEST-HOLE property=%s mutant=%s %s\n", prop, r.ID, r.Detail)
		case "OVER-SPECIFIED":
			over++
			fmt.Printf("SELFTEST-OVERSPECIFIED property=%s mutant=%s failing=%v\n", prop, r.ID, r.Failing)
		default:
			errs++
			fmt.Printf("SELFTEST-ERROR property=%s mutant=%s %s\n", prop, r.ID, r.Detail)
		}
	}
	return map[string]any{"corpus_entries_for_property": total, "run": len(sel), "must_fail_caught": caught, "must_pass_verified": verified, "holes": holes, "over_specified": over, "errors": errs, "results": results}
}

func cmdSelftest(args []string) int {
	repo, verif := envOr("GOVC_REPO", "/repo"), envOr("GOVC_VERIF", "/verif")
	ms, err := loadMutants(verif)
	if err != nil {
		fmt.Fprintln(os.Stderr, err)
		return 2
	}
	props := map[string]bool{}
	var order []string
	for _, m := range ms {
		if len(args) > 0 && m.Property != args[0] {
			continue
		}
		if !props[m.Property] {
			props[m.Property] = true
			order = append(order, m.Property)
		}
	}
	bad := 0
	for _, p := range order {
		r := selftestFor(p, 0, repo, verif)
		fmt.Printf("selftest %s: run=%v caught=%v verified=%v holes=%v over-specified=%v errors=%v\n", p, r["run"], r["must_fail_caught"], r["must_pass_verified"], r["holes"], r["over_specified"], r["errors"])
		if r["holes"].(int)+r["over_specified"].(int)+r["errors"].(int) > 0 {
			bad++
		}
	}
	if bad > 0 {
		return 1
	}
	return 0
}
