package main

import (
	"fmt"
	"go/types"
	"sort"
	"strings"

	"golang.org/x/tools/go/ssa"
)

type houdiniOb struct {
	o    *Oblig
	cand *candidate
}

// fnState carries information between translation passes of one function.
type fnState struct {
	cands       map[int][]*candidate // by loop ordinal
	knownHeaps  map[string]string
	knownLocals map[string]string
}

func (c *FnCtx) candidatesFor(li *loopInfo) []*candidate {
	if c.state == nil || c.opts == nil || !c.opts.houdini || (c.con != nil && c.con.Flags["nohoudini"]) {
		return nil
	}
	if c.knownHeaps == nil {
		return nil // first pass only discovers heaps
	}
	if cs, ok := c.state.cands[li.ordinal]; ok {
		return cs
	}
	cs := c.genCandidates(li)
	c.state.cands[li.ordinal] = cs
	return cs
}

// genCandidates proposes simple bound invariants over the named variables in scope at the
// loop header (DESIGN §2.6).
func (c *FnCtx) genCandidates(li *loopInfo) []*candidate {
	type nv struct {
		text string
		ty   types.Type
	}
	var ints, sizes []string
	seen := map[string]bool{}
	addVar := func(name string, ty types.Type, depth int) {}
	addVar = func(name string, ty types.Type, depth int) {
		if seen[name] || name == "" || name == "_" {
			return
		}
		seen[name] = true
		ty = types.Unalias(ty)
		switch tt := ty.Underlying().(type) {
		case *types.Basic:
			if tt.Info()&types.IsInteger != 0 {
				ints = append(ints, name)
			} else if tt.Info()&types.IsString != 0 {
				sizes = append(sizes, "len("+name+")")
			}
		case *types.Slice:
			sizes = append(sizes, "len("+name+")")
			if depth == 0 {
				sizes = append(sizes, "cap("+name+")")
			}
		case *types.Pointer:
			if depth > 0 {
				return
			}
			if st, ok := types.Unalias(tt.Elem()).Underlying().(*types.Struct); ok {
				if n, ok := types.Unalias(tt.Elem()).(*types.Named); ok && n.Obj().Pkg() != nil && !c.eng.ownPkg(n.Obj().Pkg().Path()) {
					return
				}
				for i := 0; i < st.NumFields(); i++ {
					addVar(name+"."+st.Field(i).Name(), st.Field(i).Type(), depth+1)
				}
			}
		}
	}
	for _, p := range c.fn.Params {
		addVar(p.Name(), p.Type(), 0)
	}
	for _, fv := range c.fn.FreeVars {
		addVar(fv.Name(), fv.Type().(*types.Pointer).Elem(), 0)
	}
	for _, in := range li.header.Instrs {
		phi, ok := in.(*ssa.Phi)
		if !ok {
			break
		}
		if phi.Comment != "" && !strings.Contains(phi.Comment, ".") {
			addVar(phi.Comment, phi.Type(), 0)
		}
	}
	for _, in := range li.header.Instrs {
		if dr, ok := in.(*ssa.DebugRef); ok && !dr.IsAddr {
			if phi, ok := dr.X.(*ssa.Phi); ok && phi.Block() == li.header && dr.Object() != nil {
				addVar(dr.Object().Name(), phi.Type(), 0)
			}
		}
	}
	// named locals defined in dominating blocks
	for d := li.header.Idom(); d != nil; d = d.Idom() {
		for _, in := range d.Instrs {
			if dr, ok := in.(*ssa.DebugRef); ok {
				if obj, ok := dr.Object().(*types.Var); ok && obj != nil && !obj.IsField() {
					ty := obj.Type()
					addVar(obj.Name(), ty, 0)
				}
			}
		}
	}
	sort.Strings(ints)
	sort.Strings(sizes)
	if len(ints) > 10 {
		ints = ints[:10]
	}
	if len(sizes) > 8 {
		sizes = sizes[:8]
	}
	var texts []string
	for _, x := range ints {
		texts = append(texts, fmt.Sprintf("0 <= %s", x))
		texts = append(texts, fmt.Sprintf("1 <= %s", x))
		texts = append(texts, fmt.Sprintf("-1 <= %s", x))
		for _, s := range sizes {
			texts = append(texts, fmt.Sprintf("%s <= %s", x, s))
			texts = append(texts, fmt.Sprintf("%s < %s", x, s))
		}
		for _, y := range ints {
			if x != y {
				texts = append(texts, fmt.Sprintf("%s <= %s", x, y))
				texts = append(texts, fmt.Sprintf("%s < %s", x, y))
			}
		}
	}
	for _, s := range sizes {
		for _, t := range sizes {
			if s != t {
				texts = append(texts, fmt.Sprintf("%s <= %s", s, t))
			}
		}
	}
	// slices built by this call: their backing array is fresh (or they have no capacity yet)
	{
		for _, sz := range sizes {
			if strings.HasPrefix(sz, "cap(") {
				x := strings.TrimSuffix(strings.TrimPrefix(sz, "cap("), ")")
				texts = append(texts, fmt.Sprintf("oldalloc() < arr(%s) || cap(%s) == 0", x, x))
			}
		}
	}
	// state kept in fields: monotone or unchanged with respect to the entry state
	for _, x := range ints {
		if strings.Contains(x, ".") {
			texts = append(texts, fmt.Sprintf("old(%s) <= %s", x, x))
			texts = append(texts, fmt.Sprintf("old(%s) == %s", x, x))
		}
	}
	for _, sz := range sizes {
		if strings.Contains(sz, ".") {
			inner := strings.TrimSuffix(strings.TrimPrefix(strings.TrimPrefix(sz, "len("), "cap("), ")")
			if strings.HasPrefix(sz, "len(") {
				texts = append(texts, fmt.Sprintf("old(%s) == %s", inner, inner))
			}
		}
	}
	var out []*candidate
	// automatic frame candidates: objects that existed at function entry are unchanged
	var ws []string
	for h := range li.writes {
		ws = append(ws, h)
	}
	sort.Strings(ws)
	for _, h := range ws {
		if srt, ok := c.heapSort[h]; ok && !c.isLocalHeap(h) && h != "ALLOC" && len(srt) > 10 && srt[:10] == "(Array Int" {
			out = append(out, &candidate{text: "pre-existing objects unchanged in " + h, frame: h, alive: true})
			// weaker: all pre-existing objects except those the parameters point to
			var ex []string
			for _, p := range c.fn.Params {
				switch tt := types.Unalias(p.Type()).Underlying().(type) {
				case *types.Pointer:
					if _, isStruct := types.Unalias(tt.Elem()).Underlying().(*types.Struct); isStruct {
						if strings.HasPrefix(h, "HF_"+typeKey(tt.Elem())+"_") {
							ex = append(ex, p.Name())
						}
					} else if h == heapCell(tt.Elem()) {
						ex = append(ex, p.Name())
					}
				case *types.Slice:
					if h == heapElem(tt.Elem()) {
						ex = append(ex, p.Name())
					}
				case *types.Map:
					if h == heapMapDom(tt) || h == heapMapVal(tt) || h == heapMapLen(tt) {
						ex = append(ex, p.Name())
					}
				}
			}
			if len(ex) > 0 {
				out = append(out, &candidate{text: "pre-existing objects other than the parameters' unchanged in " + h, frame: h, except: ex, alive: true})
			}
		}
	}
	if li.writes["*"] {
		for _, h := range c.heapOrder {
			if srt := c.heapSort[h]; !c.isLocalHeap(h) && h != "ALLOC" && len(srt) > 10 && srt[:10] == "(Array Int" && !li.writes[h] {
				out = append(out, &candidate{text: "pre-existing objects unchanged in " + h, frame: h, alive: true})
			}
		}
	}
	// int variable == number of keys a map iterator has produced
	for h := range li.writes {
		if strings.HasPrefix(h, "IT_") && strings.HasSuffix(h, "_cnt") {
			for _, x := range ints {
				if !strings.Contains(x, ".") {
					out = append(out, &candidate{text: x + " == keys produced by the map iterator", iterVar: h, iterName: x, alive: true})
				}
			}
		}
	}
	for _, t := range texts {
		e, err := parseExpr(t)
		if err != nil {
			continue
		}
		out = append(out, &candidate{text: t, e: e, alive: true})
	}
	return out
}
