#!/bin/bash
# seedrun.sh <seed-dir> <property>... : apply the seeded patch to /repo, run the quick checks, undo.
set -u
d=$1; shift
cd /repo || exit 2
if ! git diff --quiet; then echo "/repo has uncommitted changes"; exit 2; fi
git apply "$d/patch.diff" || { echo "patch does not apply"; exit 2; }
trap 'git -C /repo checkout -- . ; git -C /repo clean -fdq -- . >/dev/null 2>&1' EXIT
cd /verif; mkdir -p /tmp/seedverif/contracts; cp /verif/props.json /tmp/seedverif/; cp /verif/contracts/stdlib.vc /tmp/seedverif/contracts/; cp /verif/known_findings.json /tmp/seedverif/ 2>/dev/null; cp -r /verif/baseline /tmp/seedverif/ 2>/dev/null
for p in "$@"; do
  echo "--- $p on $(basename $d)"
  GOVC_VERIF=/tmp/seedverif bin/govc check "$p" 2>&1 | grep -E "VIOLATION|UNDECIDED|ENGINE-ERROR|^property" | cut -c1-260
done
