#!/usr/bin/env python3
"""Regenerates /verif/MANIFEST.json from /verif/manifest_src.json (claimed checks) — keeps the file valid."""
import json, sys
src = json.load(open('/verif/manifest_src.json'))
props = [json.loads(l) for l in open('/verif/properties.jsonl')]
ids = [p['id'] for p in props]
checks = []
for c in src['checks']:
    pid = c['property_id']
    checks.append({
        "property_id": pid,
        "quick_cmd": "bin/govc check %s --tier quick" % pid,
        "thorough_cmd": "bin/govc check %s --tier thorough" % pid,
        "evidence_file": "/verif/evidence/%s.json" % pid,
        "replay_cmd_template": "bin/govc replay {path}",
        "engine": "govc",
        "level_claimed": {"category": c.get("category", "proof"), "text": c["text"], "design_ref": c.get("design_ref", "DESIGN.md §3 " + pid)},
        "level_note": c["note"],
        "technique": c.get("technique", "contract-based deductive verification: weakest-precondition VCs over go/ssa of the real functions, discharged by z3/z3-new/cvc5"),
    })
claimed = {c['property_id'] for c in checks}
na = []
for pid in ids:
    if pid not in claimed:
        na.append({"property_id": pid, "reason": src['not_applicable'][pid]})
m = {
    "version": 1,
    "setup_cmd": "cd /verif/engine && GOFLAGS=-mod=mod GOPROXY=off go build -o /verif/bin/govc ./cmd/govc",
    "hooks": {
        "guard": "verif",
        "enable": "-tags verif (comment-only contract files contracts_verif.go and cli/contracts_verif.go; read by govc, no executable code)",
        "baseline_off_cmd": "cd /repo && go test -vet=off -count=1 ./...",
        "source_commits": __import__('subprocess').run(['git','-C','/repo','log','--format=%H','--grep=^verif hook'],capture_output=True,text=True).stdout.split(),
        "add_only": True,
    },
    "engines": [{"name": "govc", "path": "/verif/engine", "serves_properties": sorted(claimed),
                 "kind_free_text": "deductive program verifier for a Go subset: VC generation over go/ssa (x/tools v0.29.0) from contracts kept as structured comments in /repo, SMT portfolio z3 4.8.12 / z3-new 5.1.0 / cvc5 1.0.3"}],
    "checks": checks,
    "not_applicable": na,
    "notes": src.get("notes", ""),
}
json.dump(m, open('/verif/MANIFEST.json', 'w'), indent=1)
print("MANIFEST.json: %d checks, %d not applicable" % (len(checks), len(na)))
