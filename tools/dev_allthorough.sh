#!/bin/bash
for p in C01 C02 C03 C05 C06 C07 C08 C10 C11 C12 C13 C14 C17 C19 C20; do
  s=$(date +%s)
  /verif/bin/govc check $p --tier thorough > /tmp/thr_$p.out 2>&1
  code=$?
  grep "VIOLATION\|UNDECIDED\|ENGINE\|SELFTEST\|tier thorough" /tmp/thr_$p.out | cut -c1-260
  echo "EXIT $p $code took $(( $(date +%s) - s )) s"
done
echo done
