#!/bin/bash
# import_seed.sh <id> <need...> : copy an agent's seed from /tmp/seed_out/<id> into /verif/seeded/<id> and confirm it
id=$1; shift
src=/tmp/seed_out/$id; dst=/verif/seeded/$id
[ -f $src/patch.diff ] || { echo "$id: no patch"; exit 1; }
mkdir -p $dst
cp $src/patch.diff $dst/; cp $src/zz_seed_*_test.go $dst/ 2>/dev/null; cp $src/notes.txt $dst/agent_notes.txt 2>/dev/null
out=$(/verif/tools/confirm_seed.sh $dst)
echo "$out"
prop=${id%%_*}
python3 - "$id" "$prop" "$out" <<'PY'
import json,sys
id,prop,out=sys.argv[1:4]
ok = 'suite_fail_lines=0' in out and 'demo_with_patch=FAIL' in out and 'demo_without_patch=ok' in out
meta={"id":id,"breaks_property":prop,"needs_to_manifest":"see agent_notes.txt",
 "origin":"fresh sub-agent given only the property text and a scratch worktree (no access to /verif)",
 "confirmed":("tools/confirm_seed.sh (scratch worktree of /repo HEAD): patch applies, go build ok, existing suite passes with the patch, demo test fails with the patch and passes without it" if ok else "NOT CONFIRMED: "+out),
 "run_checks":[prop],"detected_by":[],"detection_detail":[]}
json.dump(meta,open('/verif/seeded/%s/meta.json'%id,'w'),indent=1)
PY
