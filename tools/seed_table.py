#!/usr/bin/env python3
"""seed_table.py: rewrite the block between <!-- SEEDTABLE-BEGIN --> and <!-- SEEDTABLE-END --> of DESIGN.md
from /verif/seeded/*/meta.json"""
import json, glob, os, re
rows = []
for d in sorted(glob.glob('/verif/seeded/*')):
    if not os.path.isdir(d): continue
    m = json.load(open(d + '/meta.json'))
    files = sorted({l[6:].strip() for l in open(d + '/patch.diff') if l.startswith('+++ b/')})
    det = m.get('detected_by') or []
    obs = []
    for dd in m.get('detection_detail', []):
        for o in dd.get('obligations', [])[:2]:
            obs.append(o)
    why = m.get('obsolete') or m.get('why_missed', '')
    rows.append('| %s | %s | %s | %s | %s |' % (m['id'], ', '.join(files), ', '.join(det) if det else ('(obsolete)' if m.get('obsolete') else '**missed**'), '<br>'.join('`%s`' % o for o in obs[:2]), why))
tab = '| seed | files changed | detected by (quick check) | failing obligation(s) | if missed: why |\n|---|---|---|---|---|\n' + '\n'.join(rows) + '\n'
p = '/verif/DESIGN.md'
s = open(p).read()
s = re.sub(r'(<!-- SEEDTABLE-BEGIN -->\n).*?(<!-- SEEDTABLE-END -->)', lambda mo: mo.group(1) + tab + mo.group(2), s, flags=re.S)
open(p, 'w').write(s)
n = sum(1 for r in rows if '**missed**' not in r and '(obsolete)' not in r)
print('%d seeds, %d detected' % (len(rows), n))
