#!/usr/bin/env python3
"""seed_matrix.py [seed-id ...]: apply each seeded patch to /repo, run the quick checks named in its meta.json,
undo, and record which checks report a VIOLATION (in /verif/seeded/<id>/meta.json)."""
import json, os, subprocess, sys, glob, shutil
claimed = {c['property_id'] for c in json.load(open('/verif/MANIFEST.json'))['checks']}
REPO = os.environ.get('SEED_REPO', '/repo')
ids = sys.argv[1:] or sorted(os.path.basename(d) for d in glob.glob('/verif/seeded/*') if os.path.isdir(d))
os.makedirs('/tmp/seedverif/contracts', exist_ok=True)
for sid in ids:
    d = '/verif/seeded/' + sid
    meta = json.load(open(d + '/meta.json'))
    if subprocess.run(['git', '-C', REPO, 'diff', '--quiet']).returncode != 0:
        print(REPO + ' has uncommitted changes'); sys.exit(2)
    if subprocess.run(['git', '-C', REPO, 'apply', d + '/patch.diff']).returncode != 0:
        print(sid, 'patch does not apply'); meta['detected_by'] = []; meta['obsolete'] = 'the patch no longer applies: the code it changes was rewritten by a later fix: commit'; json.dump(meta, open(d + '/meta.json', 'w'), indent=1); continue
    try:
        for f in ('props.json', 'known_findings.json'):
            shutil.copy('/verif/' + f, '/tmp/seedverif/' + f)
        shutil.copy('/verif/contracts/stdlib.vc', '/tmp/seedverif/contracts/stdlib.vc')
        if os.path.isdir('/tmp/seedverif/baseline'): shutil.rmtree('/tmp/seedverif/baseline')
        shutil.copytree('/verif/baseline', '/tmp/seedverif/baseline')
        det, detail = [], []
        for p in meta['run_checks']:
            if p not in claimed: continue
            r = subprocess.run(['/verif/bin/govc', 'check', p, '--noselftest'], cwd='/verif', env=dict(os.environ, GOVC_VERIF='/tmp/seedverif', GOVC_REPO=REPO), capture_output=True, text=True)
            viol = [l for l in r.stdout.splitlines() if l.startswith('VIOLATION')]
            und = [l for l in r.stdout.splitlines() if l.startswith('UNDECIDED')]
            if viol:
                det.append(p)
                obs = sorted({l.split('obligation=')[1].split(' ')[0] for l in viol if 'obligation=' in l})
                detail.append({"check": p, "exit": r.returncode, "violations": len(viol), "obligations": obs[:6]})
            elif und:
                detail.append({"check": p, "exit": r.returncode, "undecided": und[:3]})
        meta['detected_by'], meta['detection_detail'] = det, detail
        meta['ran'] = "git -C %s apply patch.diff; bin/govc check <P> (quick) for P in run_checks that are claimed; git -C %s checkout -- ." % (REPO, REPO) + ("" if REPO == '/repo' else " (%s is a scratch worktree of /repo at the same commit)" % REPO)
        json.dump(meta, open(d + '/meta.json', 'w'), indent=1)
        print(sid, 'detected by', det or 'NONE')
    finally:
        subprocess.run(['git', '-C', REPO, 'checkout', '--', '.'])
        subprocess.run(['git', '-C', REPO, 'clean', '-fdq'])
