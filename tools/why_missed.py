#!/usr/bin/env python3
"""why_missed.py: record, for seeds no check detects, the reason in meta.json (shown in the DESIGN table)"""
import json, os
why = {
 'C01_1': 'opcode handler of the VM (opforktryend): bytecode-level semantics, no contract expresses it',
 'C01_2': 'compiler code generation (compilePattern/compileBind): out of reach',
 'C01_3': 'compiler slot allocation (variablecnt): out of reach',
 'C03_2': 'updateArraySlice is not under contract (needs a contract on update with the allocator capacity window)',
 'C05_2': 'compiler emits a shared constant; the write happens in a VM handler (opappend)',
 'C06_2': 'compiler emits a shared backing array; the write happens in a VM handler (opappend)',
 'C07_3': 're-entry of an opcode handler after an emitted error: handlers are abstracted in the C07 skeleton',
 'C08_2': 'fault moved into a new helper function (minMaxByFunc) that is not in the pinned sweep list; reported only as a NOTE',
 'C13_1': 'floating-point arithmetic is uninterpreted (timeToEpoch)',
 'C13_2': 'update() is not under contract',
 'C14_3': 'funcMatch is not under contract (a draft needed >100 s of solver time and was dropped)',
 'C20_2': 'order of compiler post-passes (tail-call optimisation): out of reach',
 'C20_3': 'jsonInputIter.Next takes the address of fields (&e.Offset, &i.line): outside the generator subset',
}
for sid, w in why.items():
    f = '/verif/seeded/%s/meta.json' % sid
    if not os.path.exists(f): continue
    m = json.load(open(f))
    if m.get('detected_by'):
        m.pop('why_missed', None)
    else:
        m['why_missed'] = w
    json.dump(m, open(f, 'w'), indent=1)
