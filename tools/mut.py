#!/usr/bin/env python3
"""mut.py FILE OLD NEW -- govc-args...   : run govc on an in-memory mutant (overlay), nothing written to /repo"""
import sys, json, os, subprocess, tempfile
i = sys.argv.index('--')
f, old, new = sys.argv[1:4]
path = os.path.join(os.environ.get('GOVC_REPO', '/repo'), f)
src = open(path).read()
if src.count(old) != 1:
    print("mut.py: pattern occurs %d times" % src.count(old)); sys.exit(3)
with tempfile.NamedTemporaryFile('w', suffix='.json', delete=False) as t:
    json.dump({path: src.replace(old, new)}, t)
env = dict(os.environ, GOVC_OVERLAY=t.name)
r = subprocess.run(['/verif/bin/govc'] + sys.argv[i+1:], env=env)
os.unlink(t.name)
sys.exit(r.returncode)
