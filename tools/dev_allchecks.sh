#!/bin/bash
# run every check with the given seed, print summary lines and the real exit code
seed=$1
for p in C01 C02 C03 C05 C06 C07 C08 C10 C11 C12 C13 C14 C17 C19 C20; do
  VERIF_SEED=$seed /verif/bin/govc check $p --noselftest > /tmp/chk_$p.out 2>&1
  code=$?
  grep "VIOLATION\|UNDECIDED\|ENGINE\|tier quick" /tmp/chk_$p.out | cut -c1-260
  echo "EXIT $p $code"
done
