#!/bin/bash
# confirm_seed.sh <seed-dir> : in a scratch worktree of /repo (HEAD): the patch applies, the code builds,
# the existing suite passes with it, the demo fails with it and passes without it.
d=$1; name=$(basename $d)
wt=/tmp/confirm_wt
export GOFLAGS=-mod=mod GOPROXY=off
if [ ! -d $wt ]; then git -C /repo worktree add -q --detach $wt HEAD || exit 2; fi
cd $wt && git checkout -q --detach $(git -C /repo rev-parse HEAD) && git checkout -q -- . && git clean -fdq
patch=$d/patch.diff
git apply --check $patch 2>/dev/null || { echo "$name: PATCH-DOES-NOT-APPLY"; exit 1; }
git apply $patch
go build ./... 2>/dev/null || { echo "$name: DOES-NOT-BUILD"; git checkout -q -- .; exit 1; }
suite=$(go test -vet=off -count=1 ./... 2>&1 | grep -c "^FAIL")
demo=$(ls $d/zz_seed_*_test.go | head -1)
pkgdir=.
if grep -q "^package cli" $demo; then pkgdir=./cli; fi
cp $demo $pkgdir/
with=$(go test -vet=off -count=1 -timeout 120s -run 'TestSeed' $pkgdir 2>&1 | tail -1 | awk '{print $1}')
git checkout -q -- . 
without=$(go test -vet=off -count=1 -timeout 120s -run 'TestSeed' $pkgdir 2>&1 | tail -1 | awk '{print $1}')
rm -f $pkgdir/$(basename $demo)
echo "$name: suite_fail_lines=$suite demo_with_patch=$with demo_without_patch=$without"
