#!/bin/bash
for s in 0 1 2 3; do f=/tmp/all_seed$s.log; [ -f $f ] || continue; echo "seed $s: $(grep -c '^EXIT' $f) done, nonzero exits: $(grep '^EXIT' $f | grep -vc ' 0$'), violations: $(grep -c VIOLATION $f), engine: $(grep -c ENGINE $f)"; done
